// C16: the public API is safe under arbitrary concurrent use: no data race, no deadlock, no mutex left held.
//
// Built with -race. Every pair of operations from the server alphabet (incl. incoming traffic), the
// client alphabet and the adapter alphabet runs as a two-thread program (plus "issued from inside a
// handler" variants) under the controlled scheduler; every explored schedule is judged by the race
// detector under its true happens-before relation (the scheduler's hand-offs are hidden from TSan,
// every modelled primitive publishes exactly its Go-memory-model edge), by the deadlock detector and
// by the held-lock check at quiescence.
package main

import (
	"encoding/json"
	"fmt"
	"math"
	"os"
	"os/exec"
	"path/filepath"
	"sort"
	"strings"
	"time"

	sio "github.com/karagenc/socket.io-go"
	"github.com/karagenc/socket.io-go/adapter"
	eio "github.com/karagenc/socket.io-go/engine.io"
	vx "github.com/karagenc/socket.io-go/internal/vexplore"
	"github.com/karagenc/socket.io-go/internal/vrig"
	"github.com/karagenc/socket.io-go/internal/vsched"
	"github.com/karagenc/socket.io-go/parser"
	jsonparser "github.com/karagenc/socket.io-go/parser/json"
	"github.com/karagenc/socket.io-go/parser/json/serializer/stdjson"
)

// ---------------------------------------------------------------- server alphabet (rig R1)

type srvWorld struct {
	srv   *sio.Server
	nsp   *sio.Namespace
	f, f2 *vrig.FakeEIO
	s, s2 sio.ServerSocket
	v     vsched.Var
	// operations issued from inside handlers: started / returned (a hang watchdog: the deadlock detector follows
	// mutex holders only, a cycle through a WaitGroup or a Once needs this)
	opStarted, opReturned int
	pendingAck            string // ACK frame that answers the emit left pending by the set-up
}

// inHandlerRun issues the operation and counts whether it came back.
func (w *srvWorld) inHandlerRun(o *srvOp) {
	w.v.Do(func() { w.opStarted++ })
	o.run(w)
	w.v.Do(func() { w.opReturned++ })
}

type srvOp struct {
	name string
	run  func(w *srvWorld)
}

func hEvent()          {}
func hDisc(sio.Reason) {}
func hAck(string)      {}

var srvOps = []srvOp{
	{"Emit", func(w *srvWorld) { w.s.Emit("x", 1) }},
	{"Emit+ack", func(w *srvWorld) { w.s.Emit("x", 1, hAck) }},
	{"Emit-binary", func(w *srvWorld) { w.s.Emit("x", sio.Binary{1, 2}) }},
	{"Join", func(w *srvWorld) { w.s.Join("r") }},
	{"Leave", func(w *srvWorld) { w.s.Leave("r0") }},
	{"Rooms", func(w *srvWorld) { w.s.Rooms() }},
	{"nsp.Emit", func(w *srvWorld) { w.nsp.Emit("y", 2) }},
	{"Broadcast.Emit", func(w *srvWorld) { w.s.Broadcast().Emit("z") }},
	{"To(r0).Emit", func(w *srvWorld) { w.nsp.To("r0").Emit("z") }},
	{"OnEvent", func(w *srvWorld) { w.s.OnEvent("e2", hEvent) }},
	{"OffEvent", func(w *srvWorld) { w.s.OffEvent("e") }},
	{"OnDisconnect", func(w *srvWorld) { w.s.OnDisconnect(hDisc) }},
	{"OffDisconnect", func(w *srvWorld) { w.s.OffDisconnect() }},
	{"Use", func(w *srvWorld) { w.s.Use(func(string, ...any) error { return nil }) }},
	{"Disconnect(false)", func(w *srvWorld) { w.s.Disconnect(false) }},
	{"Disconnect(true)", func(w *srvWorld) { w.s.Disconnect(true) }},
	{"nsp.SocketsJoin", func(w *srvWorld) { w.nsp.SocketsJoin("r2") }},
	{"nsp.DisconnectSockets", func(w *srvWorld) { w.nsp.DisconnectSockets(false) }},
	{"nsp.FetchSockets", func(w *srvWorld) { w.nsp.FetchSockets() }},
	{"Server.Close", func(w *srvWorld) { w.srv.Close() }},
	{"incoming-event", func(w *srvWorld) { w.f.In(`2["e"]`) }},
	{"incoming-event+ack", func(w *srvWorld) { w.f.In(`27["ea"]`) }},
	{"incoming-binary-event", func(w *srvWorld) {
		w.f.InPackets(vrig.Msg(`51-["eb",{"_placeholder":true,"num":0}]`), vrig.Bin([]byte{1, 2, 3}))
	}},
	{"incoming-DISCONNECT", func(w *srvWorld) { w.f.In("1") }},
	{"incoming-transport-close", func(w *srvWorld) { w.f.TransportClose(eio.ReasonTransportClose) }},
	{"other-client-CONNECT", func(w *srvWorld) { vrig.NewFakeEIO(w.srv, "third").In("0") }},
	// the rest of the exported surface (ninth round: the rarely used variants)
	{"Timeout.Emit+ack", func(w *srvWorld) { w.s.Timeout(time.Second).Emit("x", 1, func(error, string) {}) }},
	{"OffAll", func(w *srvWorld) { w.s.OffAll() }},
	{"OnceEvent", func(w *srvWorld) { w.s.OnceEvent("e", hEvent) }},
	{"OnError+OnDisconnecting", func(w *srvWorld) { w.s.OnError(func(error) {}); w.s.OnDisconnecting(hDisc) }},
	{"OffError+OffDisconnecting", func(w *srvWorld) { w.s.OffError(); w.s.OffDisconnecting() }},
	{"Connected+ID+Recovered", func(w *srvWorld) { w.s.Connected(); w.s.ID(); w.s.Recovered() }},
	{"socket.To(r0).Emit", func(w *srvWorld) { w.s.To("r0").Emit("z", sio.Binary{7}) }},
	{"socket.Local.Except(r0).Emit", func(w *srvWorld) { w.s.Local().Except("r0").Emit("z") }},
	{"nsp.Sockets", func(w *srvWorld) { w.nsp.Sockets() }},
	{"nsp.SocketsLeave", func(w *srvWorld) { w.nsp.SocketsLeave("r0") }},
	{"nsp.In(r0).DisconnectSockets(true)", func(w *srvWorld) { w.nsp.In("r0").DisconnectSockets(true) }},
	{"nsp.Use", func(w *srvWorld) { w.nsp.Use(func(sio.ServerSocket, *sio.Handshake) any { return nil }) }},
	{"nsp.OnConnection", func(w *srvWorld) { w.nsp.OnConnection(func(sio.ServerSocket) {}) }},
	{"nsp.OffAll", func(w *srvWorld) { w.nsp.OffAll() }},
	{"nsp.OnEvent+ServerSideEmit", func(w *srvWorld) { w.nsp.OnEvent("sse", hEvent); w.nsp.ServerSideEmit("sse") }},
	{"nsp.OnServerSideEmit", func(w *srvWorld) { w.nsp.OnServerSideEmit("sse") }},
	{"nsp.Compress.Emit", func(w *srvWorld) { w.nsp.Compress(true).Emit("y", 3) }},
	{"Server.Of(new)", func(w *srvWorld) { w.srv.Of("/new").OnConnection(func(sio.ServerSocket) {}) }},
	{"Server.OnAnyConnection+OnNewNamespace", func(w *srvWorld) {
		w.srv.OnAnyConnection(func(string, sio.ServerSocket) {})
		w.srv.OnNewNamespace(func(*sio.Namespace) {})
	}},
	{"Server.Emit+FetchSockets", func(w *srvWorld) { w.srv.Emit("y", 4); w.srv.FetchSockets() }},
	{"other-client-CONNECT-/new", func(w *srvWorld) { vrig.NewFakeEIO(w.srv, "fourth").In("0/new,") }},
	{"incoming-ack-of-the-pending-emit", func(w *srvWorld) { w.f.In(w.pendingAck) }},
}

func newSrvWorld(inHandler *srvOp) *srvWorld {
	w := &srvWorld{srv: sio.NewServer(nil)}
	w.nsp = w.srv.Of("/")
	n := 0
	ready := 0
	w.srv.OnConnection(func(s sio.ServerSocket) {
		first := false
		w.v.Do(func() {
			n++
			first = n == 1
			if first {
				w.s = s
			} else if n == 2 {
				w.s2 = s
			}
		})
		s.Join("r0")
		s.OnEvent("e", hEvent)
		s.OnEvent("ea", func(ack func(string)) { ack("ok") })
		s.OnEvent("eb", func(b sio.Binary) {})
		s.OnDisconnect(hDisc)
		if first && inHandler != nil {
			// the operation is issued from inside an event handler, from inside a disconnecting
			// handler and from inside an ack callback
			s.OnEvent("trigger", func() { w.inHandlerRun(inHandler) })
			s.OnDisconnecting(func(sio.Reason) {
				// (closing the socket from its own disconnecting handler makes the close wait for this very
				// handler: the library gives up on that after 10 s, so the call returns late, but it returns)
				w.inHandlerRun(inHandler)
			})
		}
		w.v.Do(func() { ready++ })
	})
	w.f = vrig.NewFakeEIO(w.srv, "one")
	w.f2 = vrig.NewFakeEIO(w.srv, "two")
	w.f.ConnectNS("/")
	w.f2.ConnectNS("/")
	vsched.Await(func() bool { return ready == 2 })
	vrig.Settle(time.Second)
	// one emit with an acknowledgement stays unanswered: "incoming-ack-of-the-pending-emit" answers it
	w.s.Emit("pending", hAck)
	vrig.Settle(100 * time.Millisecond)
	w.pendingAck = `3999["none"]`
	for _, t := range w.f.Texts() {
		if len(t) > 12 && t[0] == '2' && t[len(t)-11:] == `["pending"]` {
			w.pendingAck = "3" + t[1:len(t)-11] + `["ok"]`
		}
	}
	return w
}

func srvPair(a, b srvOp, bound int) *vx.Scenario {
	sc := &vx.Scenario{Name: "server/" + a.name + " || " + b.name, Bound: bound, Horizon: 40 * time.Second, AllowPanic: false}
	sc.Body = func(e *vsched.Exec) func() vx.Result {
		vsched.SetExploring(false)
		w := newSrvWorld(nil)
		vsched.SetExploring(true)
		vsched.GoQuiet("A:"+a.name, func() { a.run(w) })
		vsched.GoQuiet("B:"+b.name, func() { b.run(w) })
		return func() vx.Result { return vx.Result{Outcome: "done"} }
	}
	return sc
}

func srvInHandler(a, b srvOp, bound int) *vx.Scenario {
	sc := &vx.Scenario{Name: "server-in-handler/" + a.name + " inside handlers || " + b.name, Bound: bound, Horizon: 60 * time.Second}
	sc.Body = func(e *vsched.Exec) func() vx.Result {
		vsched.SetExploring(false)
		w := newSrvWorld(&a)
		vsched.SetExploring(true)
		vsched.GoQuiet("trigger", func() {
			w.f.In(`2["trigger"]`)
			// and from an ack callback
			w.s.Emit("q", func(string) { w.inHandlerRun(&a) })
			vrig.Settle(100 * time.Millisecond)
			for _, t := range w.f.Texts() {
				if len(t) > 2 && t[0] == '2' && t[len(t)-5:] == `["q"]` {
					w.f.In("3" + t[1:len(t)-5] + `["r"]`)
				}
			}
			vrig.Settle(100 * time.Millisecond)
			w.f.In("1") // DISCONNECT: the disconnecting handler issues the operation once more
		})
		vsched.GoQuiet("B:"+b.name, func() { b.run(w) })
		return func() vx.Result {
			r := vx.Result{Outcome: "done"}
			if w.opStarted != w.opReturned {
				r.Violate("hang: an operation issued from inside a handler did not return within the horizon", "%s issued from inside an event handler, a disconnecting handler and an ack callback: started %d time(s), returned %d time(s) within %v of virtual time", a.name, w.opStarted, w.opReturned, 60*time.Second)
			}
			return r
		}
	}
	return sc
}

// ---------------------------------------------------------------- client alphabet (rig R3)

type cliWorld struct {
	srv   *sio.Server
	mgr   *sio.Manager
	link  *vrig.Inproc
	sock  sio.ClientSocket // "/", the first socket registered with the manager
	sockB sio.ClientSocket // "/b", connected as well: the manager dispatches its events to several sockets
	v     vsched.Var
	retry bool // the socket was configured with Retries / AckTimeout
}

type cliOp struct {
	name string
	run  func(w *cliWorld)
}

var cliOps = []cliOp{
	{"Emit", func(w *cliWorld) { w.sock.Emit("m", 1) }},
	{"Emit+ack", func(w *cliWorld) {
		if w.retry {
			// with Retries the ack function takes the error of a timed-out try first
			w.sock.Emit("ma", 1, func(error, string) {})
			return
		}
		w.sock.Emit("ma", 1, hAck)
	}},
	{"Emit-binary", func(w *cliWorld) { w.sock.Emit("mb", sio.Binary{4, 5}) }},
	{"Timeout.Emit", func(w *cliWorld) { w.sock.Timeout(time.Second).Emit("none", func(error) {}) }},
	{"OnEvent", func(w *cliWorld) { w.sock.OnEvent("n2", hEvent) }},
	{"OffEvent", func(w *cliWorld) { w.sock.OffEvent("n") }},
	{"OnConnect", func(w *cliWorld) { w.sock.OnConnect(func() {}) }},
	{"Connected", func(w *cliWorld) { w.sock.Connected(); w.sock.ID() }},
	{"third-namespace-Connect", func(w *cliWorld) { w.mgr.Socket("/c", nil).Connect() }},
	{"Disconnect", func(w *cliWorld) { w.sock.Disconnect() }},
	{"other-socket-Disconnect", func(w *cliWorld) { w.sockB.Disconnect() }},
	{"other-socket-Emit", func(w *cliWorld) { w.sockB.Emit("m", 2) }},
	{"link-breaks", func(w *cliWorld) { w.link.V.Do(func() { w.link.Down = true }) }},
	{"Connect-again", func(w *cliWorld) { w.sock.Connect() }},
	{"Manager.Close", func(w *cliWorld) { w.mgr.Close() }},
	{"server-emits", func(w *cliWorld) { w.srv.Emit("n", 1) }},
	{"server-emits-with-ack", func(w *cliWorld) { w.srv.Of("/").Emit("n") }},
	{"server-disconnects-socket", func(w *cliWorld) { w.srv.DisconnectSockets(false) }},
	// the rest of the exported surface (ninth round)
	{"Volatile.Emit", func(w *cliWorld) { w.sock.Volatile().Emit("m", 3) }},
	{"SetAuth+Auth+Active", func(w *cliWorld) { w.sock.SetAuth(map[string]any{"t": 1}); w.sock.Auth(); w.sock.Active() }},
	{"OffAll", func(w *cliWorld) { w.sock.OffAll() }},
	{"OnceEvent+OnDisconnect", func(w *cliWorld) { w.sock.OnceEvent("n", hEvent); w.sock.OnDisconnect(func(sio.Reason) {}) }},
	{"OffConnect+OffDisconnect", func(w *cliWorld) { w.sock.OffConnect(); w.sock.OffDisconnect() }},
	{"Manager.On*", func(w *cliWorld) {
		w.mgr.OnReconnect(func(uint32) {})
		w.mgr.OnceClose(func(sio.Reason, error) {})
		w.mgr.OnError(func(error) {})
	}},
	{"Manager.OffAll", func(w *cliWorld) { w.mgr.OffAll() }},
	{"Manager.Open", func(w *cliWorld) { w.mgr.Open() }},
	{"same-namespace-Socket-again", func(w *cliWorld) { w.mgr.Socket("/", nil).Emit("m", 5) }},
	// the server closes the whole connection: these reach the REAL Engine.IO server socket (rig R1's is the harness's;
	// seed c16i: its close guarded by a check-then-act instead of a Once)
	{"server-closes-connection", func(w *cliWorld) { w.srv.DisconnectSockets(true) }},
	{"server-socket-Disconnect(true)", func(w *cliWorld) {
		for _, s := range w.srv.Sockets() {
			s.Disconnect(true)
		}
	}},
	{"Server.Close", func(w *cliWorld) { w.srv.Close() }},
}

// retryOps: the operations that meet the packet queue of a socket configured with Retries (emits are
// queued and sent one at a time, each waits for its acknowledgement or its ack timeout and is retried).
var retryOps = map[string]bool{"Emit": true, "Emit+ack": true, "Emit-binary": true, "Disconnect": true, "Connect-again": true, "link-breaks": true,
	"Manager.Close": true, "server-disconnects-socket": true, "server-emits": true, "other-socket-Emit": true}

func cliPair(a, b cliOp, bound int, retries ...bool) *vx.Scenario {
	name := "client/" + a.name + " || " + b.name
	retry := len(retries) > 0 && retries[0]
	if retry {
		name = "client-with-retries/" + a.name + " || " + b.name
	}
	sc := &vx.Scenario{Name: name, Bound: bound, Horizon: 40 * time.Second}
	sc.Body = func(e *vsched.Exec) func() vx.Result {
		vsched.SetExploring(false)
		w := &cliWorld{retry: retry}
		var link *vrig.Inproc
		w.srv, w.mgr, link = vrig.NewSioPair(nil, nil)
		w.link = link
		ready, readyB := false, false
		for _, ns := range []string{"/", "/b", "/c"} {
			w.srv.Of(ns).Use(func(s sio.ServerSocket, h *sio.Handshake) any {
				s.OnEvent("m", func(int) {})
				s.OnEvent("ma", func(n int, ack func(string)) { ack("ok") })
				s.OnEvent("mb", func(sio.Binary) {})
				return nil
			})
			w.srv.Of(ns).OnConnection(func(sio.ServerSocket) {})
		}
		var scfg *sio.ClientSocketConfig
		if retry {
			scfg = &sio.ClientSocketConfig{Retries: 2, AckTimeout: time.Second}
		}
		w.sock = w.mgr.Socket("/", scfg)
		w.sock.OnEvent("n", hEvent)
		w.sock.OnConnect(func() { w.v.Do(func() { ready = true }) })
		w.sock.Connect()
		vsched.Await(func() bool { return ready })
		w.sockB = w.mgr.Socket("/b", nil)
		w.sockB.OnEvent("n", hEvent)
		w.sockB.OnConnect(func() { w.v.Do(func() { readyB = true }) })
		w.sockB.Connect()
		vsched.Await(func() bool { return readyB })
		vrig.Settle(time.Second)
		vsched.SetExploring(true)
		vsched.GoQuiet("A:"+a.name, func() { a.run(w) })
		vsched.GoQuiet("B:"+b.name, func() { b.run(w) })
		return func() vx.Result { return vx.Result{Outcome: "done"} }
	}
	return sc
}

// ---------------------------------------------------------------- client operations issued from inside client-side handlers
//
// where: the handler the operation is issued from - the manager's error handler after a failed dial (the link is
// down from the start; with and without reconnection), the socket's connect / disconnect / connect_error
// handlers, an event handler, an acknowledgement callback.
var cliHandlerOps = []cliOp{
	{"Manager.Close", func(w *cliWorld) { w.mgr.Close() }},
	{"Disconnect", func(w *cliWorld) { w.sock.Disconnect() }},
	{"Emit", func(w *cliWorld) { w.sock.Emit("m", 1) }},
	{"Emit+ack", func(w *cliWorld) { w.sock.Emit("ma", 1, hAck) }},
	{"Connect", func(w *cliWorld) { w.sock.Connect() }},
	{"other-socket-Disconnect", func(w *cliWorld) { w.sockB.Disconnect() }},
	{"OffEvent+OnEvent", func(w *cliWorld) { w.sock.OffEvent("n"); w.sock.OnEvent("n", hEvent) }},
}

func cliInHandler(where string, op cliOp, bound int) *vx.Scenario {
	sc := &vx.Scenario{Name: "client-in-handler/" + where + "/" + op.name, Bound: bound, Horizon: 40 * time.Second}
	sc.Body = func(e *vsched.Exec) func() vx.Result {
		vsched.SetExploring(false)
		w := &cliWorld{}
		mcfg := &sio.ManagerConfig{NoReconnection: true}
		if where == "manager-error-while-reconnecting" {
			mcfg = &sio.ManagerConfig{ReconnectionAttempts: 2, ReconnectionDelay: &[]time.Duration{time.Second}[0], ReconnectionDelayMax: &[]time.Duration{time.Second}[0]}
		}
		var link *vrig.Inproc
		w.srv, w.mgr, link = vrig.NewSioPair(nil, mcfg)
		w.link = link
		for _, ns := range []string{"/", "/b"} {
			w.srv.Of(ns).Use(func(s sio.ServerSocket, h *sio.Handshake) any {
				s.OnEvent("m", func(int) {})
				s.OnEvent("ma", func(n int, ack func(string)) { ack("ok") })
				return nil
			})
			w.srv.Of(ns).OnConnection(func(sio.ServerSocket) {})
		}
		fired := false
		once := func() bool { // the operation is issued from the first invocation of the handler only
			first := false
			w.v.Do(func() { first = !fired; fired = true })
			return first
		}
		do := func() {
			if once() {
				op.run(w)
			}
		}
		w.sock = w.mgr.Socket("/", nil)
		w.sockB = w.mgr.Socket("/b", nil)
		w.sock.OnEvent("n", hEvent)
		ready, readyB := false, false
		w.sock.OnConnect(func() {
			w.v.Do(func() { ready = true })
			if where == "connect-handler" {
				do()
			}
		})
		w.sockB.OnConnect(func() { w.v.Do(func() { readyB = true }) })
		w.sock.OnDisconnect(func(sio.Reason) {
			if where == "disconnect-handler" {
				do()
			}
		})
		w.sock.OnEvent("go", func() {
			if where == "event-handler" {
				do()
			}
		})
		w.mgr.OnError(func(error) {
			if strings.HasPrefix(where, "manager-error") {
				do()
			}
		})
		switch {
		case strings.HasPrefix(where, "manager-error"):
			// the dial fails: the link is down from the start
			link.V.Do(func() { link.Down = true })
			vsched.SetExploring(true)
			w.sockB.Connect()
			w.sock.Connect()
		default:
			w.sock.Connect()
			vsched.Await(func() bool { return ready || fired })
			w.sockB.Connect()
			vsched.Await(func() bool { return readyB || fired })
			vrig.Settle(time.Second)
			vsched.SetExploring(true)
			switch where {
			case "disconnect-handler":
				w.srv.Of("/").DisconnectSockets(false)
			case "event-handler":
				w.srv.Of("/").Emit("go")
			case "ack-callback":
				w.sock.Emit("ma", 1, func(string) { do() })
			}
		}
		return func() vx.Result { return vx.Result{Outcome: fmt.Sprint("fired=", fired)} }
	}
	return sc
}

// ---------------------------------------------------------------- adapter alphabet

type adOp struct {
	name string
	run  func(a adapter.Adapter)
}

type nullSock struct{ id adapter.SocketID }

func (s nullSock) ID() adapter.SocketID                                   { return s.id }
func (s nullSock) Join(room ...adapter.Room)                              {}
func (s nullSock) Leave(room adapter.Room)                                {}
func (s nullSock) Emit(eventName string, v ...any)                        {}
func (s nullSock) To(room ...adapter.Room) *adapter.BroadcastOperator     { return nil }
func (s nullSock) In(room ...adapter.Room) *adapter.BroadcastOperator     { return nil }
func (s nullSock) Except(room ...adapter.Room) *adapter.BroadcastOperator { return nil }
func (s nullSock) Broadcast() *adapter.BroadcastOperator                  { return nil }
func (s nullSock) Disconnect(close bool)                                  {}

type nullStore struct{}

func (nullStore) Get(sid adapter.SocketID) (adapter.Socket, bool)         { return nullSock{sid}, true }
func (nullStore) GetAll() []adapter.Socket                                { return nil }
func (nullStore) SendBuffers(sid adapter.SocketID, buffers [][]byte) bool { return true }
func (nullStore) Remove(sid adapter.SocketID)                             {}

func adOpts(rooms ...adapter.Room) *adapter.BroadcastOptions {
	o := adapter.NewBroadcastOptions()
	for _, r := range rooms {
		o.Rooms.Add(r)
	}
	return o
}

var adOps = []adOp{
	{"AddAll", func(a adapter.Adapter) { a.AddAll("s1", []adapter.Room{"r1", "r2"}) }},
	{"Delete", func(a adapter.Adapter) { a.Delete("s2", "r1") }},
	{"DeleteAll", func(a adapter.Adapter) { a.DeleteAll("s2") }},
	{"Sockets", func(a adapter.Adapter) { a.Sockets(adOpts("r1").Rooms) }},
	{"SocketRooms", func(a adapter.Adapter) { a.SocketRooms("s2") }},
	{"FetchSockets", func(a adapter.Adapter) { a.FetchSockets(adOpts("r1")) }},
	{"AddSockets", func(a adapter.Adapter) { a.AddSockets(adOpts(), "r3") }},
	{"DisconnectSockets", func(a adapter.Adapter) { a.DisconnectSockets(adOpts("r1"), false) }},
	{"Broadcast", func(a adapter.Adapter) {
		a.Broadcast(&parser.PacketHeader{Type: parser.PacketTypeEvent, Namespace: "/"}, []any{"ev", 1}, adOpts("r1"))
	}},
	// the parser cannot encode NaN: Broadcast panics by design; the application recovers (the library
	// itself recovers handler panics), and nothing may be left locked behind
	{"Broadcast-unencodable-recovered", func(a adapter.Adapter) {
		defer func() { recover() }()
		a.Broadcast(&parser.PacketHeader{Type: parser.PacketTypeEvent, Namespace: "/"}, []any{"ev", math.NaN()}, adOpts("r1"))
	}},
}

func adPair(x, y adOp, sessionAware bool, bound int) *vx.Scenario {
	kind := "adapter"
	if sessionAware {
		kind = "session-aware-adapter"
	}
	sc := &vx.Scenario{Name: kind + "/" + x.name + " || " + y.name, PreemptOnly: true, Bound: bound, Horizon: 10 * time.Second}
	sc.Body = func(e *vsched.Exec) func() vx.Result {
		creator := adapter.NewInMemoryAdapterCreator()
		if sessionAware {
			creator = adapter.NewSessionAwareAdapterCreator(2 * time.Minute)
		}
		a := creator(nullStore{}, jsonparser.NewCreator(0, stdjson.New()))
		a.AddAll("s2", []adapter.Room{"r1"})
		a.AddAll("s3", []adapter.Room{"r1", "r2"})
		vsched.GoQuiet("A:"+x.name, func() { x.run(a) })
		vsched.GoQuiet("B:"+y.name, func() { y.run(a) })
		return func() vx.Result { return vx.Result{Outcome: "done"} }
	}
	return sc
}

// adSessOps: the session half of the session-aware adapter (connection state recovery): sessions are persisted
// when a connection is lost and restored when the client comes back - from the goroutines of different
// connections, next to broadcasts and the periodic clean-up. One session is still valid, one has expired but
// was not swept yet (the cleaner runs once a minute), one pid is unknown.
var adSessOps = []adOp{
	{"PersistSession", func(a adapter.Adapter) {
		a.PersistSession(&adapter.SessionToPersist{SID: "s9", PID: "p-new", Rooms: []adapter.Room{"s9", "r1"}})
	}},
	{"RestoreSession(valid)", func(a adapter.Adapter) { a.RestoreSession("p-valid", "") }},
	{"RestoreSession(expired, not swept yet)", func(a adapter.Adapter) { a.RestoreSession("p-old", "") }},
	{"RestoreSession(unknown pid)", func(a adapter.Adapter) { a.RestoreSession("p-nobody", "") }},
	{"Broadcast", func(a adapter.Adapter) {
		a.Broadcast(&parser.PacketHeader{Type: parser.PacketTypeEvent, Namespace: "/"}, []any{"ev", 1}, adOpts("r1"))
	}},
	{"clean-up pass", func(a adapter.Adapter) { vsched.Sleep(50 * time.Second) }}, // the pass of 180 s falls into the scenario
}

func adSessPair(x, y adOp, bound int) *vx.Scenario {
	sc := &vx.Scenario{Name: "session-aware-adapter-sessions/" + x.name + " || " + y.name, PreemptOnly: true, Bound: bound, Horizon: 4 * time.Minute}
	sc.Body = func(e *vsched.Exec) func() vx.Result {
		vsched.SetExploring(false)
		a := adapter.NewSessionAwareAdapterCreator(2*time.Minute)(nullStore{}, jsonparser.NewCreator(0, stdjson.New()))
		a.AddAll("s2", []adapter.Room{"r1"})
		a.Broadcast(&parser.PacketHeader{Type: parser.PacketTypeEvent, Namespace: "/"}, []any{"ev", 0}, adOpts("r1"))
		a.PersistSession(&adapter.SessionToPersist{SID: "s7", PID: "p-old", Rooms: []adapter.Room{"s7", "r1"}})
		vsched.Sleep(100 * time.Second)
		a.PersistSession(&adapter.SessionToPersist{SID: "s8", PID: "p-valid", Rooms: []adapter.Room{"s8", "r1"}})
		vsched.Sleep(30*time.Second + time.Second) // 131 s: p-old is older than the window, the next pass is at 180 s
		vsched.SetExploring(true)
		vsched.GoQuiet("A:"+x.name, func() { x.run(a) })
		vsched.GoQuiet("B:"+y.name, func() { y.run(a) })
		vsched.Sleep(time.Minute)
		return func() vx.Result { return vx.Result{Outcome: "done"} }
	}
	return sc
}

func scenarios(tier string) []*vx.Scenario {
	b := 1
	if tier == "thorough" {
		b = 2
	}
	var s []*vx.Scenario
	for i := range srvOps {
		for j := i; j < len(srvOps); j++ {
			s = append(s, srvPair(srvOps[i], srvOps[j], b))
		}
	}
	// issued from inside handlers: every operation, against two representative concurrent ones
	for i := range srvOps {
		if srvOps[i].name == "Server.Close" || srvOps[i].name[:3] == "inc" || strings.HasPrefix(srvOps[i].name, "other-client-CONNECT") {
			continue
		}
		s = append(s, srvInHandler(srvOps[i], srvOps[0], b), srvInHandler(srvOps[i], srvOps[14], b))
	}
	for i := range cliOps {
		for j := i; j < len(cliOps); j++ {
			s = append(s, cliPair(cliOps[i], cliOps[j], b))
		}
	}
	for i := range cliOps {
		for j := i; j < len(cliOps); j++ {
			if retryOps[cliOps[i].name] && retryOps[cliOps[j].name] {
				s = append(s, cliPair(cliOps[i], cliOps[j], b, true))
			}
		}
	}
	for _, where := range []string{"manager-error-after-failed-dial", "manager-error-while-reconnecting", "connect-handler", "disconnect-handler", "event-handler", "ack-callback"} {
		for _, op := range cliHandlerOps {
			s = append(s, cliInHandler(where, op, b))
		}
	}
	for i := range adSessOps {
		for j := i; j < len(adSessOps); j++ {
			if adSessOps[i].name == "clean-up pass" && i == j {
				continue
			}
			s = append(s, adSessPair(adSessOps[i], adSessOps[j], b+1))
		}
	}
	for _, sa := range []bool{false, true} {
		for i := range adOps {
			for j := i; j < len(adOps); j++ {
				s = append(s, adPair(adOps[i], adOps[j], sa, b+1))
			}
		}
	}
	return s
}

// runCompanion runs harness/c16r5 (plain -race build, real loopback) with the race detector logging to a file
// and files its reports: data races whose racing access lies in repository code, and its own assertions.
func runCompanion(tier string, r *vx.Report) {
	bin := os.Getenv("VERIF_COMPANION_BIN")
	if os.Getenv("VERIF_NO_COMPANION") == "1" {
		r.CapsHit = append(r.CapsHit, "free-running part skipped (VERIF_NO_COMPANION=1)")
		return
	}
	if bin == "" {
		r.HarnessErrs = append(r.HarnessErrs, "companion binary (free-running race pass) not built: VERIF_COMPANION_BIN unset")
		return
	}
	dir, err := os.MkdirTemp(filepath.Dir(bin), "racelog")
	if err != nil {
		r.HarnessErrs = append(r.HarnessErrs, "companion: "+err.Error())
		return
	}
	defer os.RemoveAll(dir)
	logp := filepath.Join(dir, "race")
	cmd := exec.Command(bin, "-tier", tier)
	cmd.Env = append(os.Environ(), "GORACE=log_path="+logp+" halt_on_error=0 history_size=2")
	cmd.Stderr = os.Stderr
	out, err := cmd.Output()
	var co struct {
		Evaluations int      `json:"evaluations"`
		Caps        []string `json:"caps"`
		Programs    []string `json:"programs"`
		Violations  []struct {
			Key string `json:"key"`
			Msg string `json:"msg"`
		} `json:"violations"`
	}
	i := strings.LastIndex(string(out), "\nRESULT ")
	if i < 0 || json.Unmarshal(out[i+8:], &co) != nil {
		tail := string(out)
		if len(tail) > 2000 {
			tail = tail[len(tail)-2000:]
		}
		r.HarnessErrs = append(r.HarnessErrs, fmt.Sprintf("companion failed: %v\n%s", err, tail))
		return
	}
	r.Evaluations += co.Evaluations
	r.CapsHit = append(r.CapsHit, co.Caps...)
	for _, v := range co.Violations {
		r.Violate("free-running: "+v.Key, v.Msg, map[string]any{"part": "free-running", "programs": co.Programs})
	}
	nrep := 0
	logs, _ := filepath.Glob(logp + ".*")
	for _, lf := range logs {
		b, err := os.ReadFile(lf)
		if err != nil {
			continue
		}
		for _, rr := range vx.ParseRaceLog(string(b)) {
			nrep++
			if !vx.InRepo(rr.FA) && !vx.InRepo(rr.FB) {
				continue
			}
			fs := []string{vx.CleanFunc(rr.A), vx.CleanFunc(rr.B)}
			sort.Strings(fs)
			r.Violate("free-running: data race: "+fs[0]+" / "+fs[1], "race detector report in a free-running program over real loopback I/O (programs: "+strings.Join(co.Programs, "; ")+"):\n"+rr.Text, map[string]any{"part": "free-running", "programs": co.Programs})
		}
	}
	r.Extra["free_running"] = map[string]any{"programs": co.Programs, "race_reports_seen": nrep}
}

func main() {
	if !vsched.RaceEnabled {
		fmt.Println("HARNESS-ERROR property=C16 this harness must be built with -race (harness/c16/MODE = instr+race)")
		return
	}
	vx.Main(vx.Config{
		Property:  "C16",
		Level:     "model_checking",
		Rule:      "every unordered pair (incl. an operation with itself) of operations from a 26-operation server alphabet (API calls and incoming traffic) over harness-implemented Engine.IO sockets, an 18-operation Go-client alphabet (a manager with two connected sockets; incl. the link breaking, which starts the reconnection machinery) over the in-process polling link, the same with the socket configured with Retries and AckTimeout (packet queue: 10 operations), a 6-operation alphabet of the session-aware adapter's session half (persist, restore of a valid / an expired but not yet swept / an unknown session, broadcast, the clean-up pass), and a 10-operation adapter alphabet (incl. a Broadcast whose argument cannot be encoded, recovered by the caller) (in-memory and session-aware) as a two-thread program, plus every server operation issued from inside an event handler, a disconnecting handler and an ack callback against two concurrent operations, and 7 client operations issued from inside the manager's error handler (failed dial, with and without reconnection), a socket's connect and disconnect handlers, an event handler and an ack callback; all schedules to the deviation bound, each judged by the race detector (reports whose racing access lies in repository code), the deadlock detector and the held-mutex check. distinct_nontrivial = deviating schedules",
		Scenarios: scenarios,
		Extra:     runCompanion,
		Budget: func(tier string) time.Duration {
			if tier == "thorough" {
				return 20 * time.Minute
			}
			return 100 * time.Second
		},
		Assumptions: []string{
			"net/http and the real byte transports are outside the controlled scheduler: their share of the API (several connections made from one configuration with a user-supplied *http.Transport) runs in a separate free-running -race pass over real loopback I/O (harness/c16r5), whose reports are filed here; that pass samples schedules, it does not enumerate them",
			"the race detector sees the true happens-before relation of every explored schedule: scheduler hand-offs are wrapped in runtime.RaceDisable and all scheduler code is //go:norace; each modelled primitive publishes its Go-memory-model edge with runtime.RaceAcquire/RaceReleaseMerge (validated by harness/racetest)",
			"channel operations publish a slightly stronger edge than Go guarantees (acquire+release on every successful operation), which can hide a race but never invent one",
			"programs are pairs (two threads) of single operations; 16 goroutines / random long programs of the quantifier are replaced by exhaustive small-scope enumeration",
		},
	})
}
