package main

import (
	"fmt"
	"net/http"
	"net/http/httptest"
	"time"

	sio "github.com/karagenc/socket.io-go"
	eio "github.com/karagenc/socket.io-go/engine.io"
	"github.com/karagenc/socket.io-go/engine.io/transport"
	vx "github.com/karagenc/socket.io-go/internal/vexplore"
	"github.com/karagenc/socket.io-go/internal/vrig"
	"github.com/karagenc/socket.io-go/internal/vsched"
)

// ---------------------------------------------------------------- the connection ends while it is being upgraded
//
// The sio <-> sio pair of the R3 scenarios, but a transport upgrade to the duplex pipe of rig R4 (the real
// tryUpgradeTo / maybeUpgrade / upgradeTo / finishUpgradeTo state machines; latency L per frame) is under
// way when the cause strikes: k*L/2 after the start of the upgrade for k = 0..7, i.e. before the probe,
// while ping / pong / UPGRADE are in flight, exactly on the boundaries, and after the swap. Causes: the
// API calls of the R3 scenarios and the new pipe being cut. Same oracle: each side reports the end once,
// with a reason naming a cause, nothing is left on the server.

const upL = 100 * time.Millisecond

func startUpgrade(cut func(d *vrig.Duplex)) func(srv *sio.Server, mgr *sio.Manager, l *pairLog) {
	return func(srv *sio.Server, mgr *sio.Manager, l *pairLog) {
		cs := mgr.VerifEIO()
		es := sio.VerifEIOSocketOf(l.serverSock)
		eioSrv := srv.VerifEIOServer()
		ccb, scb := transport.NewCallbacks(), transport.NewCallbacks()
		d := vrig.NewDuplex(ccb, scb)
		d.Latency = upL
		if cut != nil {
			cut(d)
		}
		d.OnClientHandshake = func() {
			vsched.GoQuiet("server-maybeUpgrade", func() {
				req, _ := http.NewRequest("GET", "http://inproc/socket.io/?EIO=4&transport=webtransport", nil)
				eioSrv.VerifMaybeUpgrade(httptest.NewRecorder(), req, es, d.Server(), scb)
			})
		}
		vsched.GoQuiet("client-upgrader", func() { eio.VerifTryUpgradeTo(cs, d.C, ccb) })
	}
}

func upgradeScenarios(tier string) []*vx.Scenario {
	b := 1
	if tier == "thorough" {
		b = 2
	}
	down := []string{"transport close", "transport error", "ping timeout", "forced close", "forced server close"}
	type causeT struct {
		name           string
		run            func(srv *sio.Server, mgr *sio.Manager, sock sio.ClientSocket, l *pairLog)
		srvOK, cliOK   []string
		connectionOver bool
	}
	causes := []causeT{
		{"Server.Close", func(srv *sio.Server, mgr *sio.Manager, sock sio.ClientSocket, l *pairLog) { srv.Close() },
			[]string{"server shutting down", "forced close", "forced server close"}, append([]string{"io server disconnect"}, down...), true},
		{"Manager.Close", func(srv *sio.Server, mgr *sio.Manager, sock sio.ClientSocket, l *pairLog) { mgr.Close() },
			append([]string{"client namespace disconnect"}, down...), []string{"io client disconnect", "forced close"}, true},
		{"ClientSocket.Disconnect", func(srv *sio.Server, mgr *sio.Manager, sock sio.ClientSocket, l *pairLog) { sock.Disconnect() },
			append([]string{"client namespace disconnect"}, down...), []string{"io client disconnect"}, false},
		{"ServerSocket.Disconnect(true)", func(srv *sio.Server, mgr *sio.Manager, sock sio.ClientSocket, l *pairLog) {
			l.serverSock.Disconnect(true)
		}, []string{"server namespace disconnect", "forced server close", "forced close"}, append([]string{"io server disconnect"}, down...), true},
	}
	var out []*vx.Scenario
	for _, c := range causes {
		c := c
		for k := 0; k <= 7; k++ {
			k := k
			out = append(out, r3Scenario(fmt.Sprintf("during-upgrade/%s/at-%d*L/2", c.name, k),
				func(srv *sio.Server, mgr *sio.Manager, sock sio.ClientSocket, link *vrig.Inproc, l *pairLog) {
					vsched.GoQuiet("cause", func() {
						vsched.Sleep(time.Duration(k) * upL / 2)
						c.run(srv, mgr, sock, l)
					})
				}, c.srvOK, c.cliOK, c.connectionOver, b, startUpgrade(nil)))
		}
	}
	// the new pipe breaks after the client has swapped to it: frame n of either direction is never sent.
	// Client -> server: 0 probe ping, 1 UPGRADE, 2.. traffic (heartbeat pongs); server -> client: 0 probe pong, 1.. pings
	for _, cut := range []struct {
		name string
		set  func(d *vrig.Duplex)
	}{
		{"pipe-cut-before-first-frame-after-UPGRADE(c2s)", func(d *vrig.Duplex) { d.CutBeforeC2S = 2 }},
		{"pipe-cut-before-first-frame-after-pong(s2c)", func(d *vrig.Duplex) { d.CutBeforeS2C = 1 }},
		{"pipe-cut-before-UPGRADE", func(d *vrig.Duplex) { d.CutBeforeC2S = 1 }},
	} {
		out = append(out, r3Scenario("during-upgrade/"+cut.name,
			func(srv *sio.Server, mgr *sio.Manager, sock sio.ClientSocket, link *vrig.Inproc, l *pairLog) {},
			down, down, true, b, startUpgrade(cut.set)))
	}
	// a burst of server -> client events is queued on the polling transport when the UPGRADE arrives, and the new
	// pipe breaks at the first frame the server carries over to it: the write fails inside upgradeTo, and the
	// transport reports its close from inside Send, on upgradeTo's own goroutine
	for k := 0; k <= 7; k++ {
		k := k
		out = append(out, r3Scenario(fmt.Sprintf("during-upgrade/pipe-cut-at-the-first-carried-over-frame/server-burst-at-%d*L/2", k),
			func(srv *sio.Server, mgr *sio.Manager, sock sio.ClientSocket, link *vrig.Inproc, l *pairLog) {
				vsched.GoQuiet("server-burst", func() {
					vsched.Sleep(time.Duration(k) * upL / 2)
					for i := 0; i < 3; i++ {
						l.serverSock.Emit("burst", i)
					}
				})
			}, []string{"transport close", "transport error"}, down, true, b, startUpgrade(func(d *vrig.Duplex) { d.CutBeforeS2C = 1 })))
		// (server side: the cause is a write that failed, at once - not a heartbeat that times out 45 s later)
	}
	return out
}
