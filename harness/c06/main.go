// C06: every connection end is reported exactly once and leaves nothing on the server.
//
// sio level over rig R1 (causes x phases, pairs of causes), sio<->sio over rig R3 (Server.Close,
// Manager.Close, client Disconnect) and the Engine.IO level over rig R3 with the byte stream cut at
// every k-th byte of a scripted polling session (eiolevel.go).
package main

import (
	"encoding/json"
	"fmt"
	"sort"
	"strings"
	"time"

	sio "github.com/karagenc/socket.io-go"
	"github.com/karagenc/socket.io-go/adapter"
	eio "github.com/karagenc/socket.io-go/engine.io"
	vx "github.com/karagenc/socket.io-go/internal/vexplore"
	"github.com/karagenc/socket.io-go/internal/vrig"
	"github.com/karagenc/socket.io-go/internal/vsched"
)

// sockLog is what the application observes about one server-side socket.
type sockLog struct {
	ns            string
	sock          sio.ServerSocket
	id            string
	connHandler   int
	log           []string // "disconnecting:<reason>", "disconnect:<reason>", "event"
	handlersReady bool
}

type world struct {
	v     vsched.Var
	srv   *sio.Server
	socks []*sockLog
	gate  chan struct{} // middleware gate (nil = no blocking middleware)
	// passThrough: the middleware does not wait at the gate (the earlier session of the recovery phases)
	passThrough bool
}

// How a socket comes to sit in a room BEFORE its admission (a socket has an id and can Join from the moment it
// exists, i.e. while the namespace middlewares are still deciding about it).
const (
	preNone      = ""
	preJoin      = "Join-in-the-middleware"       // the middleware sorts the socket into a room (socket.Join) and is slow afterwards
	preRecovered = "rooms-of-a-recovered-session" // connection state recovery with UseMiddlewares: the socket re-joins the rooms of its session, then the middlewares run
)

// mwPhase describes an in-middleware phase: what the socket already holds when the connection ends under the
// middleware's feet, and what the middleware decides afterwards.
type mwPhase struct {
	pre    string
	reject bool
}

var mwPhases = map[string]mwPhase{
	phMiddleware:               {},
	phMiddlewareJoined:         {pre: preJoin},
	phMiddlewareJoinedRejected: {pre: preJoin, reject: true},
	phMiddlewareRecovered:      {pre: preRecovered},
}

func inMiddleware(phase string) bool { _, ok := mwPhases[phase]; return ok }

func (w *world) byNS(ns string) *sockLog {
	for _, s := range w.socks {
		if s.ns == ns {
			return s
		}
	}
	return nil
}

func newWorld(namespaces []string, blockingMiddleware bool, mw mwPhase) *world {
	var scfg *sio.ServerConfig
	if mw.pre == preRecovered {
		scfg = &sio.ServerConfig{ServerConnectionStateRecovery: sio.ServerConnectionStateRecovery{Enabled: true, UseMiddlewares: true}}
	}
	w := &world{srv: sio.NewServer(scfg)}
	if blockingMiddleware {
		w.gate = make(chan struct{})
	}
	for _, ns := range namespaces {
		ns := ns
		nsp := w.srv.Of(ns)
		if blockingMiddleware {
			nsp.Use(func(s sio.ServerSocket, h *sio.Handshake) any {
				if mw.pre == preJoin {
					s.Join(earlyRoom)
				}
				wait := true
				w.v.Do(func() { wait = !w.passThrough })
				if wait {
					vsched.RecvStmt(w.gate)
				}
				if mw.reject {
					return "not admitted"
				}
				return nil
			})
		}
		nsp.OnConnection(func(s sio.ServerSocket) {
			l := &sockLog{ns: ns, sock: s, id: string(s.ID())}
			w.v.Do(func() { w.socks = append(w.socks, l); l.connHandler++ })
			s.OnDisconnecting(func(r sio.Reason) { w.v.Do(func() { l.log = append(l.log, "disconnecting:"+string(r)) }) })
			s.OnDisconnect(func(r sio.Reason) { w.v.Do(func() { l.log = append(l.log, "disconnect:"+string(r)) }) })
			// the handler joins a room, as handlers commonly do on a client's request: a Join that lands
			// after the socket has left (its handler was dispatched before the end) must leave nothing behind
			s.OnEvent("e", func() { w.v.Do(func() { l.log = append(l.log, "event") }); s.Join("lobby") })
			// a slow handler: it was dispatched while the socket was connected and joins a room a second later
			s.OnEvent("slow-join", func() { vsched.Sleep(time.Second); s.Join("late-lobby") })
			w.v.Do(func() { l.handlersReady = true })
		})
	}
	return w
}

func nsFrame(typ, ns, rest string) string {
	if ns == "/" {
		return typ + rest
	}
	return typ + ns + "," + rest
}

// cause of a connection end; run executes it (on its own thread).
type cause struct {
	name    string
	reasons []string // reasons that name this cause
	whole   bool     // ends the whole connection (all namespaces), not just one socket
	run     func(w *world, f *vrig.FakeEIO)
}

func eioClose(r eio.Reason) cause {
	return cause{"eio-close:" + string(r), []string{string(r)}, true, func(w *world, f *vrig.FakeEIO) { f.TransportClose(r) }}
}

var causes = []cause{
	{"client-DISCONNECT-frame", []string{"client namespace disconnect"}, false, func(w *world, f *vrig.FakeEIO) { f.In(nsFrame("1", "/", "")) }},
	{"socket.Disconnect(false)", []string{"server namespace disconnect"}, false, func(w *world, f *vrig.FakeEIO) {
		var s sio.ServerSocket
		w.v.Do(func() {
			if l := w.byNS("/"); l != nil {
				s = l.sock
			}
		})
		if s != nil {
			s.Disconnect(false)
		}
	}},
	{"socket.Disconnect(true)", []string{"server namespace disconnect", "forced server close", "forced close"}, true, func(w *world, f *vrig.FakeEIO) {
		var s sio.ServerSocket
		w.v.Do(func() {
			if l := w.byNS("/"); l != nil {
				s = l.sock
			}
		})
		if s != nil {
			s.Disconnect(true)
		}
	}},
	eioClose(eio.ReasonTransportClose),
	eioClose(eio.ReasonTransportError),
	eioClose(eio.ReasonPingTimeout),
	eioClose(eio.ReasonForcedClose),
	eioClose(eio.ReasonParseError),
	{"protocol-error-frame", []string{"forced close", "parse error", "forced server close"}, true, func(w *world, f *vrig.FakeEIO) { f.In("9bogus") }},
	{"unknown-namespace-packet", []string{"forced close", "forced server close"}, true, func(w *world, f *vrig.FakeEIO) { f.In(`2/nowhere,["e"]`) }},
}

// phases
const (
	phBeforeConnect = "before-CONNECT"
	phMiddleware    = "in-middleware"
	// the same, but the socket the middleware is deciding about already sits in a room (see preJoin / preRecovered);
	// the middleware then admits it - or turns it away - after the connection has ended
	phMiddlewareJoined         = "in-middleware-that-joined-a-room"
	phMiddlewareJoinedRejected = "in-middleware-that-joined-a-room-and-rejects"
	phMiddlewareRecovered      = "in-middleware-of-a-recovered-session-with-rooms"
	phIdle                     = "connected-idle"
	phBurstOut                 = "burst-server-to-client"
	phBurstIn                  = "burst-client-to-server"
	phTwoNS                    = "two-namespaces"
	// the peer sent CONNECT twice for one namespace while the middleware was busy: both are admitted (each
	// packet is handled on its own goroutine and the socket is registered with the connection only at the
	// end of the admission), so the connection carries two sockets of one namespace when it ends
	phTwoConnects = "two-CONNECTs-admitted-for-one-namespace"
)

func scenario(phase string, cs []cause, bound int) *vx.Scenario {
	var names []string
	for _, c := range cs {
		names = append(names, c.name)
	}
	name := phase + "/" + strings.Join(names, "+")
	sc := &vx.Scenario{Name: name, Bound: bound, Horizon: 3 * time.Minute}
	sc.Body = func(e *vsched.Exec) func() vx.Result {
		vsched.SetExploring(false)
		nss := []string{"/"}
		if phase == phTwoNS {
			nss = []string{"/", "/b"}
		}
		mw := mwPhases[phase]
		w := newWorld(nss, inMiddleware(phase) || phase == phTwoConnects, mw)
		connectFrame := "0"
		if mw.pre == preRecovered {
			// an earlier session of the same client: it joined a room, saw a broadcast (which gives it an offset) and lost its transport
			connectFrame = earlierSession(w)
		}
		f := vrig.NewFakeEIO(w.srv, "c06")
		switch {
		case phase == phBeforeConnect:
		case inMiddleware(phase):
			f.In(connectFrame) // CONNECT; the middleware blocks
			vrig.Settle(time.Second)
			if mw.pre != preNone && !inRoom(w.srv.Of("/"), earlyRoom) {
				// the ingredient of the phase is missing (e.g. the session was not restored): not a verdict
				vsched.Await(func() bool { return false })
			}
		case phase == phTwoConnects:
			f.In("0")
			f.In("0")
			vrig.Settle(time.Second)
			vsched.Close(w.gate)
			vrig.Settle(time.Second)
		default:
			for _, ns := range nss {
				f.ConnectNS(ns)
			}
			vsched.Await(func() bool {
				if len(w.socks) != len(nss) {
					return false
				}
				for _, s := range w.socks {
					if !s.handlersReady {
						return false
					}
				}
				return true
			})
			vrig.Settle(time.Second)
		}
		vsched.SetExploring(true)
		switch phase {
		case phBurstOut:
			s := w.byNS("/").sock
			vsched.GoQuiet("burst-out", func() {
				for i := 0; i < 3; i++ {
					s.Emit("x", i)
				}
			})
		case phBurstIn:
			vsched.GoQuiet("burst-in", func() {
				f.In(`2["slow-join"]`)
				for i := 0; i < 3; i++ {
					f.In(`2["e"]`)
				}
			})
		}
		for i, c := range cs {
			c := c
			vsched.GoQuiet(fmt.Sprintf("cause%d:%s", i, c.name), func() { c.run(w, f) })
		}
		if inMiddleware(phase) {
			vsched.GoQuiet("release-middleware", func() { vsched.Close(w.gate) })
		}
		// afterwards the peer keeps talking: events after the end must not reach handlers
		anyWhole := phase == phBeforeConnect
		for _, c := range cs {
			anyWhole = anyWhole || c.whole
		}
		if anyWhole {
			// (after a namespace-level disconnect a packet for that namespace would legitimately
			// close the whole connection - that is C05's subject, so no late event then)
			vsched.GoQuiet("late-client-event", func() {
				vsched.Sleep(2 * time.Second)
				f.In(`2["e"]`)
			})
		}
		return func() vx.Result {
			var r vx.Result
			whole := false
			allowed := map[string]bool{}
			for _, c := range cs {
				if c.whole {
					whole = true
				}
				for _, x := range c.reasons {
					allowed[x] = true
				}
			}
			key := func(what string) string { return fmt.Sprintf("sio: %s (phase %s)", what, phase) }
			var out []string
			connectionOver := whole || f.Closed > 0
			if phase == phBeforeConnect {
				// nobody joined a namespace: the connect timeout (45 s) closes the connection anyway
				connectionOver = true
				if f.Closed == 0 {
					r.Violate(key("connection without namespace not closed after the connect timeout"), "causes %v: eio socket never closed", names)
				}
			}
			for _, l := range w.socks {
				out = append(out, l.ns+":"+strings.Join(l.log, ","))
				// which sockets must have ended?
				must := connectionOver || l.ns == "/"
				nDisc, nDiscing := 0, 0
				discAt := -1
				for i, x := range l.log {
					switch {
					case strings.HasPrefix(x, "disconnect:"):
						nDisc++
						if discAt < 0 {
							discAt = i
						}
						if !allowed[strings.TrimPrefix(x, "disconnect:")] {
							r.Violate(key("disconnect reason does not name the cause"), "socket %s: %v, causes %v allow %v", l.ns, l.log, names, keys(allowed))
						}
					case strings.HasPrefix(x, "disconnecting:"):
						nDiscing++
						if nDisc > 0 {
							r.Violate(key("disconnecting reported after disconnect"), "socket %s: %v", l.ns, l.log)
						}
					case x == "event":
						if nDisc > 0 {
							r.Violate(key("event handler ran after the disconnect was reported"), "socket %s: %v", l.ns, l.log)
						}
					}
				}
				if nDisc > 1 || nDiscing > 1 {
					r.Violate(key("disconnect reported more than once"), "socket %s: %v (causes %v)", l.ns, l.log, names)
				}
				if must && nDisc == 0 && l.handlersReady && !inMiddleware(phase) {
					r.Violate(key("disconnect never reported for a socket that had connected"), "socket %s: %v (causes %v)", l.ns, l.log, names)
				}
				if !must && nDisc > 0 {
					r.Violate(key("disconnecting one namespace disconnected another"), "socket %s: %v (causes %v)", l.ns, l.log, names)
				}
				ended := nDisc > 0 || must
				if ended && !inMiddleware(phase) {
					leftovers(&r, key, w, f, l, names)
				}
			}
			if connectionOver {
				// nothing at all may be left, also of sockets the application never saw
				for _, ns := range nss {
					nsp := w.srv.Of(ns)
					rooms, sids, _ := adapter.VerifDump(nsp.Adapter())
					if n := len(nsp.Sockets()); n != 0 || len(rooms) != 0 || len(sids) != 0 {
						what := "socket left on the server after its connection ended"
						if inMiddleware(phase) {
							what = "socket admitted after its connection ended and never closed"
							if mw.pre != preNone && n == 0 {
								what = "rooms a socket was put into before its admission stay in the adapter although its connection ended while the middleware ran"
							}
						}
						r.Violate(key(what), "namespace %s: %d sockets listed, adapter rooms=%v sids=%v; application saw %v; causes %v", ns, n, rooms, sids, out, names)
					}
				}
				if ids := f.Conn.SocketIDs(); len(ids) != 0 && !inMiddleware(phase) {
					r.Violate(key("connection still tracks sockets after it ended"), "%v", ids)
				}
			}
			sort.Strings(out)
			r.Outcome = strings.Join(out, " | ") + fmt.Sprintf(" closed=%v", f.Closed > 0)
			return r
		}
	}
	return sc
}

// earlyRoom is the room a socket sits in before its admission in the phases with a pre-admission membership.
const earlyRoom = "early-lobby"

func inRoom(nsp *sio.Namespace, room string) bool {
	rooms, _, _ := adapter.VerifDump(nsp.Adapter())
	return len(rooms[room]) > 0
}

// earlierSession runs a first session of the client on a connection of its own (default schedule): CONNECT, the
// application puts the socket into earlyRoom, the namespace broadcasts once, the transport is lost. It returns the
// CONNECT frame that asks for the recovery of that session, and arms the middleware gate for the connection to come.
// If anything of that does not happen the body never returns (HARNESS-ERROR), it is not a verdict.
func earlierSession(w *world) string {
	never := func() { vsched.Await(func() bool { return false }) }
	w.v.Do(func() { w.passThrough = true })
	f0 := vrig.NewFakeEIO(w.srv, "c06-earlier")
	f0.ConnectNS("/")
	vsched.Await(func() bool { return len(w.socks) == 1 && w.socks[0].handlersReady })
	w.socks[0].sock.Join(earlyRoom)
	w.srv.Of("/").Emit("tick")
	vrig.Settle(time.Second)
	var ids struct {
		PID string `json:"pid"`
	}
	offset := ""
	for _, t := range f0.Texts() {
		switch {
		case strings.HasPrefix(t, "0{"):
			json.Unmarshal([]byte(t[1:]), &ids)
		case strings.HasPrefix(t, `2["tick",`):
			var args []string
			if json.Unmarshal([]byte(t[1:]), &args) == nil && len(args) == 2 {
				offset = args[1]
			}
		}
	}
	if ids.PID == "" || offset == "" {
		never()
	}
	f0.TransportClose(eio.ReasonTransportClose)
	vrig.Settle(time.Second)
	if n := len(w.srv.Of("/").Sockets()); n != 0 || inRoom(w.srv.Of("/"), earlyRoom) {
		never() // (the plain phases judge this end)
	}
	// the application's view starts afresh with the connection under study
	w.v.Do(func() { w.socks = nil; w.passThrough = false })
	auth, _ := json.Marshal(map[string]string{"pid": ids.PID, "offset": offset})
	return "0" + string(auth)
}

// leaveAtOnce: the client sends DISCONNECT for the namespace right behind its CONNECT (or the application kicks
// every socket of the namespace at that moment). Each packet is handled on its own goroutine, so the close can
// land anywhere in the admission: before the socket exists (the connection is then closed as a whole), while it
// is being registered / joined to its own room, or after. Whatever the interleaving, the client has left: at the
// end no socket of it is listed or in a room, and a socket whose connection handler ran got its disconnect once.
func leaveAtOnce(how string, bound int) *vx.Scenario {
	sc := &vx.Scenario{Name: "leave-right-behind-the-CONNECT/" + how, Bound: bound, Horizon: 3 * time.Minute, Shards: 4}
	sc.Body = func(e *vsched.Exec) func() vx.Result {
		srv := sio.NewServer(nil)
		var v vsched.Var
		type seen struct {
			id       string
			log      []string
			handlers int
		}
		var socks []*seen
		// the lifecycle handlers are registered in a middleware, i.e. before the socket can be connected at all (the
		// connection handler runs asynchronously after the CONNECT reply: its lateness is a finding of its own)
		srv.Of("/").Use(func(s sio.ServerSocket, h *sio.Handshake) any {
			l := &seen{id: string(s.ID())}
			v.Do(func() { socks = append(socks, l) })
			s.OnDisconnecting(func(r sio.Reason) { v.Do(func() { l.log = append(l.log, "disconnecting:"+string(r)) }) })
			s.OnDisconnect(func(r sio.Reason) { v.Do(func() { l.log = append(l.log, "disconnect:"+string(r)) }) })
			return nil
		})
		srv.Of("/").OnConnection(func(s sio.ServerSocket) {
			v.Do(func() {
				for _, l := range socks {
					if l.id == string(s.ID()) {
						l.handlers++
					}
				}
			})
		})
		f := vrig.NewFakeEIO(srv, "c06")
		f.In("0")
		switch how {
		case "client-DISCONNECT-frame":
			f.In("1")
		case "DisconnectSockets(false)":
			srv.Of("/").DisconnectSockets(false)
		}
		vrig.Settle(2 * time.Second)
		listedAtEnd := len(srv.Of("/").Sockets())
		return func() vx.Result {
			var r vx.Result
			var out []string
			for _, l := range socks {
				out = append(out, fmt.Sprintf("%s(connection handler ran %d times)", strings.Join(l.log, ","), l.handlers))
			}
			rooms, sids, _ := adapter.VerifDump(srv.Of("/").Adapter())
			replied := f.HasPrefix("0{")
			r.Outcome = fmt.Sprintf("closed=%v listed=%d replied=%v socks=%v", f.Closed > 0, listedAtEnd, replied, out)
			ctx := fmt.Sprintf("%s right behind the CONNECT: connection closed %d time(s); %d socket(s) listed at the end, adapter rooms=%v sids=%v; what the application saw of its sockets: %v; frames to the client %v", how, f.Closed, listedAtEnd, rooms, sids, out, f.Texts())
			key := func(what string) string { return "sio: " + what + " (leave right behind the CONNECT)" }
			for _, l := range socks {
				n := 0
				for _, x := range l.log {
					if strings.HasPrefix(x, "disconnect:") {
						n++
					}
				}
				if n > 1 {
					r.Violate(key("disconnect reported more than once"), "%s", ctx)
				}
			}
			// a server-side kick that comes before the socket is listed finds nobody, and the socket then simply
			// stays (correct); the client's own DISCONNECT always ends the membership, or the whole connection
			if how == "client-DISCONNECT-frame" || f.Closed > 0 {
				if listedAtEnd != 0 || len(rooms) != 0 || len(sids) != 0 {
					r.Violate(key("the client has left but its socket is still on the server"), "%s", ctx)
				}
				for _, l := range socks {
					connected := l.handlers > 0 || (replied && strings.Contains(strings.Join(f.Texts(), " "), l.id))
					if connected && !strings.Contains(strings.Join(l.log, ","), "disconnect:") {
						r.Violate(key("disconnect never reported for a socket that had connected"), "%s", ctx)
					}
				}
			}
			return r
		}
	}
	return sc
}

func leftovers(r *vx.Result, key func(string) string, w *world, f *vrig.FakeEIO, l *sockLog, names []string) {
	nsp := w.srv.Of(l.ns)
	for _, s := range nsp.Sockets() {
		if string(s.ID()) == l.id {
			r.Violate(key("ended socket still listed in its namespace"), "socket %s (%s), causes %v", l.ns, l.id, names)
		}
	}
	rooms, sids, _ := adapter.VerifDump(nsp.Adapter())
	if _, ok := sids[l.id]; ok {
		r.Violate(key("ended socket still in rooms"), "socket %s (%s): adapter sids=%v", l.ns, l.id, sids)
	}
	for room, members := range rooms {
		for _, m := range members {
			if m == l.id {
				r.Violate(key("ended socket still in rooms"), "socket %s (%s) in room %s", l.ns, l.id, room)
			}
		}
	}
	for _, id := range f.Conn.SocketIDs() {
		if id == l.id {
			r.Violate(key("ended socket still tracked by its connection"), "socket %s (%s)", l.ns, l.id)
		}
	}
}

func keys(m map[string]bool) []string {
	var out []string
	for k := range m {
		out = append(out, k)
	}
	sort.Strings(out)
	return out
}

func scenarios(tier string) []*vx.Scenario {
	b1, b2 := 2, 2
	if tier == "thorough" {
		b1, b2 = 3, 3
	}
	var s []*vx.Scenario
	// every single cause x phase
	for _, ph := range []string{phBeforeConnect, phMiddleware, phMiddlewareJoined, phMiddlewareJoinedRejected, phMiddlewareRecovered, phIdle, phBurstOut, phBurstIn, phTwoNS, phTwoConnects} {
		for _, c := range causes {
			if ph == phTwoConnects && !c.whole {
				continue // which of the two sockets a namespace-level cause means is not defined
			}
			if ph == phBeforeConnect || inMiddleware(ph) {
				// no socket exists yet: socket-level causes do not apply
				if strings.HasPrefix(c.name, "socket.") || c.name == "client-DISCONNECT-frame" {
					continue
				}
			}
			s = append(s, scenario(ph, []cause{c}, b1))
		}
	}
	s = append(s, scenario(phBeforeConnect, nil, 0)) // connect timeout alone
	// every unordered pair of causes at once (connected idle; two namespaces for a subset)
	for i := 0; i < len(causes); i++ {
		for j := i + 1; j < len(causes); j++ {
			s = append(s, scenario(phIdle, []cause{causes[i], causes[j]}, b2))
		}
	}
	if tier == "thorough" {
		for i := 0; i < len(causes); i++ {
			for j := i + 1; j < len(causes); j++ {
				s = append(s, scenario(phTwoNS, []cause{causes[i], causes[j]}, b2))
			}
		}
	}
	s = append(s, leaveAtOnce("client-DISCONNECT-frame", b1+1), leaveAtOnce("DisconnectSockets(false)", b1+1))
	s = append(s, r3Scenarios(tier)...)
	s = append(s, upgradeScenarios(tier)...)
	return s
}

func main() {
	vx.Main(vx.Config{
		Property: "C06",
		Level:    "model_checking",
		Rule: "every termination cause (client DISCONNECT frame, Disconnect(false/true), Engine.IO close with each of its 5 reasons, protocol error, packet for an unknown namespace, connect timeout) x phase (before CONNECT, middleware blocked - also with the socket already in a room before its admission: Join in the middleware, then admitted or rejected, or the rooms of a recovered session with UseMiddlewares -, idle, burst either way, two namespaces) and every unordered pair of causes at once, each explored to the deviation bound after a default-schedule set-up; " +
			"sio<->sio over the in-process polling link for Server.Close / Manager.Close / client Disconnect / Disconnect(true) / black-holed link, and the same API causes plus a cut of the new pipe striking at k*L/2 (k=0..7) into a transport upgrade over the duplex pipe of rig R4; Server.Close / Manager.Close / client Disconnect issued right after Connect() (connection still being set up); and a scripted Engine.IO polling session cut at every k-th byte of every request body and response (fault enumeration). distinct_nontrivial = deviating schedules + cut points",
		Scenarios: scenarios,
		Budget: func(tier string) time.Duration {
			if tier == "thorough" {
				return 15 * time.Minute
			}
			return 180 * time.Second
		},
		Extra: eioLevel,
		Assumptions: []string{
			"rig R1: harness-implemented eio.ServerSocket whose Close reports 'forced close' once, like the real one",
			"a disconnect handler is required to run only if it was registered before the termination cause was injected (the server runs connection handlers asynchronously after its CONNECT reply)",
			"vsched semantics; virtual time",
		},
	})
}
