package main

import (
	"encoding/json"
	"fmt"
	"io"
	"net/http"
	"net/http/httptest"
	"os"
	"regexp"
	"sort"
	"strconv"
	"strings"
	"time"

	sio "github.com/karagenc/socket.io-go"
	"github.com/karagenc/socket.io-go/adapter"
	vx "github.com/karagenc/socket.io-go/internal/vexplore"
	"github.com/karagenc/socket.io-go/internal/vrig"
	"github.com/karagenc/socket.io-go/internal/vsched"
)

// ---------------------------------------------------------------- sio <-> sio over rig R3

type pairLog struct {
	v          vsched.Var
	srvLog     []string
	cliLog     []string
	srvReady   bool
	cliReady   bool
	serverSock sio.ServerSocket
}

func r3Scenario(name string, cause func(srv *sio.Server, mgr *sio.Manager, sock sio.ClientSocket, link *vrig.Inproc, l *pairLog), srvReasons, cliReasons []string, connectionOver bool, bound int, before ...func(srv *sio.Server, mgr *sio.Manager, l *pairLog)) *vx.Scenario {
	sc := &vx.Scenario{Name: "sio-sio/" + name, Bound: bound, Horizon: 3 * time.Minute}
	sc.Body = func(e *vsched.Exec) func() vx.Result {
		vsched.SetExploring(false)
		scfg := &sio.ServerConfig{}
		scfg.EIO.PingInterval = 2 * time.Second
		scfg.EIO.PingTimeout = 3 * time.Second
		srv, mgr, link := vrig.NewSioPair(scfg, nil)
		l := &pairLog{}
		srv.OnConnection(func(s sio.ServerSocket) {
			s.OnDisconnecting(func(r sio.Reason) { l.v.Do(func() { l.srvLog = append(l.srvLog, "disconnecting:"+string(r)) }) })
			s.OnDisconnect(func(r sio.Reason) { l.v.Do(func() { l.srvLog = append(l.srvLog, "disconnect:"+string(r)) }) })
			l.v.Do(func() { l.serverSock = s; l.srvReady = true })
		})
		sock := mgr.Socket("/", nil)
		sock.OnConnect(func() { l.v.Do(func() { l.cliReady = true }) })
		sock.OnDisconnect(func(r sio.Reason) { l.v.Do(func() { l.cliLog = append(l.cliLog, "disconnect:"+string(r)) }) })
		sock.Connect()
		vsched.Await(func() bool { return l.srvReady && l.cliReady })
		vrig.Settle(500 * time.Millisecond)
		vsched.SetExploring(true)
		for _, b := range before {
			b(srv, mgr, l)
		}
		cause(srv, mgr, sock, link, l)
		return func() vx.Result {
			var r vx.Result
			r.Outcome = fmt.Sprint(l.srvLog, l.cliLog)
			key := func(w string) string { return "sio<->sio: " + w + " (" + name + ")" }
			judge := func(side string, log []string, allowed []string, must bool) {
				n := 0
				for _, x := range log {
					if strings.HasPrefix(x, "disconnect:") {
						n++
						ok := false
						for _, a := range allowed {
							if x == "disconnect:"+a {
								ok = true
							}
						}
						if !ok {
							r.Violate(key(side+" disconnect reason does not name the cause"), "%v, allowed %v", log, allowed)
						}
					}
				}
				if n > 1 {
					r.Violate(key(side+" disconnect reported more than once"), "%v", log)
				}
				if must && n == 0 {
					r.Violate(key(side+" disconnect never reported"), "%v", log)
				}
			}
			judge("server", l.srvLog, srvReasons, true)
			judge("client", l.cliLog, cliReasons, len(cliReasons) > 0)
			nsp := srv.Of("/")
			rooms, sids, _ := adapter.VerifDump(nsp.Adapter())
			if n := len(nsp.Sockets()); n != 0 || len(rooms) != 0 || len(sids) != 0 {
				r.Violate(key("socket left on the server"), "%d sockets listed, adapter rooms=%v sids=%v", n, rooms, sids)
			}
			if connectionOver {
				if ids := srv.VerifEIOSessionIDs(); len(ids) != 0 {
					r.Violate(key("Engine.IO session still known after the connection ended"), "%v", ids)
				}
			}
			return r
		}
	}
	return sc
}

func r3Scenarios(tier string) []*vx.Scenario {
	b := 1
	if tier == "thorough" {
		b = 2
	}
	down := []string{"transport close", "transport error", "ping timeout", "forced close", "forced server close"}
	cb := b + 1
	if v := os.Getenv("C06_CB"); v != "" {
		cb, _ = strconv.Atoi(v)
	}
	return []*vx.Scenario{
		connectingScenario("Server.Close", func(srv *sio.Server, mgr *sio.Manager, sock sio.ClientSocket) { srv.Close() }, true, cb),
		connectingScenario("Manager.Close", func(srv *sio.Server, mgr *sio.Manager, sock sio.ClientSocket) { mgr.Close() }, false, cb),
		connectingScenario("ClientSocket.Disconnect", func(srv *sio.Server, mgr *sio.Manager, sock sio.ClientSocket) { sock.Disconnect() }, false, cb),
		r3Scenario("Server.Close", func(srv *sio.Server, mgr *sio.Manager, sock sio.ClientSocket, link *vrig.Inproc, l *pairLog) {
			vsched.GoQuiet("server-close", func() { srv.Close() })
		}, []string{"server shutting down", "forced close", "forced server close"}, append([]string{"io server disconnect"}, down...), true, b),
		r3Scenario("Manager.Close", func(srv *sio.Server, mgr *sio.Manager, sock sio.ClientSocket, link *vrig.Inproc, l *pairLog) {
			vsched.GoQuiet("manager-close", func() { mgr.Close() })
		}, append([]string{"client namespace disconnect"}, down...), []string{"io client disconnect", "forced close"}, true, b),
		r3Scenario("ClientSocket.Disconnect", func(srv *sio.Server, mgr *sio.Manager, sock sio.ClientSocket, link *vrig.Inproc, l *pairLog) {
			vsched.GoQuiet("client-disconnect", func() { sock.Disconnect() })
		}, append([]string{"client namespace disconnect"}, down...), []string{"io client disconnect"}, false, b),
		r3Scenario("ServerSocket.Disconnect(true)", func(srv *sio.Server, mgr *sio.Manager, sock sio.ClientSocket, link *vrig.Inproc, l *pairLog) {
			vsched.GoQuiet("server-disconnect", func() { l.serverSock.Disconnect(true) })
		}, []string{"server namespace disconnect", "forced server close", "forced close"}, append([]string{"io server disconnect"}, down...), true, b),
		r3Scenario("link-black-holed", func(srv *sio.Server, mgr *sio.Manager, sock sio.ClientSocket, link *vrig.Inproc, l *pairLog) {
			vsched.GoQuiet("black-hole", func() { link.V.Do(func() { link.BlackHole = true }) })
		}, []string{"ping timeout", "transport close", "transport error"}, []string{"ping timeout", "transport close", "transport error"}, true, b),
		r3Scenario("Server.Close||Manager.Close", func(srv *sio.Server, mgr *sio.Manager, sock sio.ClientSocket, link *vrig.Inproc, l *pairLog) {
			vsched.GoQuiet("server-close", func() { srv.Close() })
			vsched.GoQuiet("manager-close", func() { mgr.Close() })
		}, append([]string{"server shutting down", "client namespace disconnect"}, down...), append([]string{"io client disconnect", "io server disconnect"}, down...), true, b),
	}
}

// connectingScenario: the cause strikes while the connection is still being set up (Engine.IO handshake,
// CONNECT packet, admission): the cause is issued right after Connect() has returned. Whatever the outcome,
// each connected period of the client socket is followed by exactly one disconnect report, the server socket
// reports at most one, and nothing is left on the server.
func connectingScenario(name string, cause func(srv *sio.Server, mgr *sio.Manager, sock sio.ClientSocket), serverDown bool, bound int) *vx.Scenario {
	sc := &vx.Scenario{Name: "sio-sio/while-connecting/" + name, Bound: bound, Horizon: 3 * time.Minute, Shards: 8}
	sc.Body = func(e *vsched.Exec) func() vx.Result {
		scfg := &sio.ServerConfig{}
		scfg.EIO.PingInterval = 10 * time.Minute // no heartbeat traffic inside the horizon
		scfg.EIO.PingTimeout = 10 * time.Minute
		srv, mgr, _ := vrig.NewSioPair(scfg, nil)
		l := &pairLog{}
		// handlers registered in the middleware: before the CONNECT reply
		srv.Use(func(s sio.ServerSocket, h *sio.Handshake) any {
			s.OnDisconnect(func(r sio.Reason) { l.v.Do(func() { l.srvLog = append(l.srvLog, "disconnect:"+string(r)) }) })
			return nil
		})
		srv.OnConnection(func(s sio.ServerSocket) {})
		sock := mgr.Socket("/", nil)
		sock.OnConnect(func() { l.v.Do(func() { l.cliLog = append(l.cliLog, "connect") }) })
		sock.OnDisconnect(func(r sio.Reason) { l.v.Do(func() { l.cliLog = append(l.cliLog, "disconnect:"+string(r)) }) })
		// Connect() has returned (it only starts the connection) when the cause is issued
		sock.Connect()
		vsched.GoQuiet("cause", func() { cause(srv, mgr, sock) })
		if !serverDown {
			// A client-side call issued this early may legitimately be overtaken by the connection it was
			// meant to stop (Connect is asynchronous; whether such a call must win is not C06's subject).
			// The server is therefore shut down for good later on: whatever state the race left behind
			// must be cleaned up and reported by then.
			vsched.GoQuiet("final-server-close", func() {
				vsched.Sleep(time.Minute)
				srv.Close()
			})
		}
		return func() vx.Result {
			var r vx.Result
			r.Outcome = fmt.Sprint(l.srvLog, l.cliLog)
			key := func(w string) string { return "sio<->sio while connecting: " + w + " (" + name + ")" }
			if len(l.srvLog) > 1 {
				r.Violate(key("server disconnect reported more than once"), "%v", l.srvLog)
			}
			// per connected period of the client socket: exactly one disconnect report. (A report for a
			// socket that has not connected yet - the manager was closed while the CONNECT was pending -
			// is what the reference client does as well and is not judged: the statement ranges over
			// sockets that had connected.)
			up, reports := false, 0
			for _, x := range l.cliLog {
				if x == "connect" {
					if up && reports == 0 {
						r.Violate(key("client connected again without the previous end having been reported"), "%v", l.cliLog)
					}
					up, reports = true, 0
					continue
				}
				if up {
					reports++
					if reports > 1 {
						r.Violate(key("client disconnect reported more than once for one connection"), "%v", l.cliLog)
					}
				}
			}
			if sock.Connected() {
				r.Violate(key("client socket still in the connected state after the connection ended"), "client log %v; server log %v", l.cliLog, l.srvLog)
			} else if up && reports == 0 {
				// the socket's state is right, but the last thing the application heard is "connect"
				n := len(l.cliLog)
				if n >= 2 && strings.HasPrefix(l.cliLog[n-2], "disconnect:") {
					r.Violate(key("connect handler invoked after the disconnect handler that ended the same connection"), "client log %v; server log %v", l.cliLog, l.srvLog)
				} else {
					r.Violate(key("client saw the connection come up but was never told that it ended"), "client log %v; server log %v", l.cliLog, l.srvLog)
				}
			}
			nsp := srv.Of("/")
			rooms, sids, _ := adapter.VerifDump(nsp.Adapter())
			if n := len(nsp.Sockets()); n != 0 || len(rooms) != 0 || len(sids) != 0 {
				r.Violate(key("socket left on the server"), "%d sockets listed, adapter rooms=%v sids=%v; server log %v client log %v", n, rooms, sids, l.srvLog, l.cliLog)
			}
			if ids := srv.VerifEIOSessionIDs(); len(ids) != 0 {
				r.Violate(key("Engine.IO session alive on a closed server"), "%v", ids)
			}
			return r
		}
	}
	return sc
}

// ---------------------------------------------------------------- Engine.IO level: byte cuts

// cutBody yields the first k bytes and then fails like a connection that died mid-body.
type cutBody struct {
	data []byte
	k    int
	pos  int
}

func (c *cutBody) Read(p []byte) (int, error) {
	if c.pos >= c.k {
		return 0, io.ErrUnexpectedEOF
	}
	n := copy(p, c.data[c.pos:c.k])
	c.pos += n
	return n, nil
}
func (c *cutBody) Close() error { return nil }

// cutWriter fails after k bytes of the response body were written.
type cutWriter struct {
	*httptest.ResponseRecorder
	k       int
	written int
	failed  bool
}

func (c *cutWriter) Write(p []byte) (int, error) {
	if c.written+len(p) > c.k {
		n := c.k - c.written
		if n < 0 {
			n = 0
		}
		c.ResponseRecorder.Write(p[:n])
		c.written += n
		c.failed = true
		return n, fmt.Errorf("write: broken pipe")
	}
	c.written += len(p)
	return c.ResponseRecorder.Write(p)
}

var sidRe = regexp.MustCompile(`"sid":"([^"]+)"`)

type step struct {
	method string
	body   string // POST body
	pre    func(w *sessWorld)
}

type sessWorld struct {
	v          vsched.Var
	srv        *sio.Server
	sock       sio.ServerSocket
	log        []string
	events     []int
	handlersOK bool
}

// script of one polling session (Socket.IO over Engine.IO v4 long-polling, spoken by hand).
func script() []step {
	return []step{
		{method: "GET"},              // handshake: OPEN
		{method: "POST", body: "40"}, // CONNECT to "/"
		{method: "GET"},              // CONNECT reply
		{method: "POST", body: `42["e",1]`},
		{method: "POST", body: `42["e",2]` + "\x1e" + `42["e",3]`},
		{method: "GET", pre: func(w *sessWorld) { // two events from the server
			vsched.Await(func() bool { return w.handlersOK })
			w.sock.Emit("s", "one")
			w.sock.Emit("s", "two")
		}},
		{method: "GET"},             // blocks until the server's ping (virtual 2 s)
		{method: "POST", body: "3"}, // pong
		{method: "POST", body: `451-["b",{"_placeholder":true,"num":0}]` + "\x1e" + "bAQID"},
	}
}

// runSession plays the script; cutStep/cutAt select the fault (cutStep < 0: none). kind "req" cuts
// the request body, "resp" the response body. Returns the lengths (request body, response body) per step.
func runSession(cutStep int, kind string, cutAt int, r *vx.Report) (reqLen, respLen []int) {
	var fail []string
	failKey := ""
	violate := func(key, format string, a ...any) {
		if failKey == "" {
			failKey = key
		}
		fail = append(fail, fmt.Sprintf(format, a...))
	}
	steps := script()
	reqLen, respLen = make([]int, len(steps)), make([]int, len(steps))
	e := vsched.Run(vsched.Options{Horizon: 2 * time.Minute}, func(e *vsched.Exec) {
		scfg := &sio.ServerConfig{}
		scfg.EIO.PingInterval = 2 * time.Second
		scfg.EIO.PingTimeout = 3 * time.Second
		w := &sessWorld{srv: sio.NewServer(scfg)}
		w.srv.OnConnection(func(s sio.ServerSocket) {
			s.OnDisconnecting(func(r sio.Reason) { w.v.Do(func() { w.log = append(w.log, "disconnecting:"+string(r)) }) })
			s.OnDisconnect(func(r sio.Reason) { w.v.Do(func() { w.log = append(w.log, "disconnect:"+string(r)) }) })
			s.OnEvent("e", func(n int) { w.v.Do(func() { w.events = append(w.events, n) }) })
			s.OnEvent("b", func(b sio.Binary) { w.v.Do(func() { w.events = append(w.events, 100+len(b)) }) })
			w.v.Do(func() { w.sock = s; w.handlersOK = true })
		})
		sid := ""
		cutHappened := false
		for i, st := range steps {
			if st.pre != nil {
				st.pre(w)
			}
			url := "http://x/socket.io/?EIO=4&transport=polling"
			if sid != "" {
				url += "&sid=" + sid
			}
			var body io.ReadCloser
			if st.method == "POST" {
				reqLen[i] = len(st.body)
				if i == cutStep && kind == "req" {
					body = &cutBody{data: []byte(st.body), k: cutAt}
				} else {
					body = io.NopCloser(strings.NewReader(st.body))
				}
			}
			req, _ := http.NewRequest(st.method, url, body)
			if st.method == "POST" {
				req.ContentLength = int64(len(st.body))
				req.Header.Set("Content-Type", "text/plain; charset=UTF-8")
			}
			rec := httptest.NewRecorder()
			var rw http.ResponseWriter = rec
			if i == cutStep && kind == "resp" {
				rw = &cutWriter{ResponseRecorder: rec, k: cutAt}
			}
			w.srv.ServeHTTP(rw, req)
			respLen[i] = rec.Body.Len()
			if i == cutStep {
				cutHappened = true
				break // the client is gone
			}
			if i == 0 {
				m := sidRe.FindStringSubmatch(rec.Body.String())
				if m == nil {
					violate("eio: scripted session broke without a fault", "handshake answered %d %q", rec.Code, rec.Body.String())
					return
				}
				sid = m[1]
			} else if rec.Code != 200 {
				violate("eio: scripted session broke without a fault", "step %d (%s %q) answered %d %q", i, st.method, st.body, rec.Code, rec.Body.String())
				return
			}
		}
		if !cutHappened {
			// clean end: the client says CLOSE
			req, _ := http.NewRequest("POST", "http://x/socket.io/?EIO=4&transport=polling&sid="+sid, strings.NewReader("1"))
			req.ContentLength = 1
			w.srv.ServeHTTP(httptest.NewRecorder(), req)
		}
		// let heartbeats run out: a dead client is noticed at the latest after interval + timeout
		vrig.Settle(30 * time.Second)

		what := fmt.Sprintf("cut %s of step %d at byte %d", kind, cutStep, cutAt)
		if cutStep < 0 {
			what = "clean CLOSE packet"
		}
		connected := w.handlersOK
		nDisc := 0
		for _, x := range w.log {
			if strings.HasPrefix(x, "disconnect:") {
				nDisc++
				reason := strings.TrimPrefix(x, "disconnect:")
				switch reason {
				case "transport close", "transport error", "ping timeout", "parse error", "forced close", "forced server close":
				default:
					violate("eio: disconnect reason does not name the cause", "%s: %v", what, w.log)
				}
			}
		}
		if connected && nDisc != 1 {
			violate(fmt.Sprintf("eio: disconnect reported %d times after the byte stream was cut", nDisc), "%s: handlers saw %v", what, w.log)
		}
		if !connected && nDisc != 0 {
			violate("eio: disconnect reported for a socket that never connected", "%s: %v", what, w.log)
		}
		nsp := w.srv.Of("/")
		rooms, sids, _ := adapter.VerifDump(nsp.Adapter())
		if n := len(nsp.Sockets()); n != 0 || len(rooms) != 0 || len(sids) != 0 {
			violate("eio: socket left on the server after the byte stream was cut", "%s: %d sockets listed, adapter rooms=%v sids=%v, handlers saw %v", what, n, rooms, sids, w.log)
		}
		if ids := w.srv.VerifEIOSessionIDs(); len(ids) != 0 {
			violate("eio: Engine.IO session still known after the byte stream was cut", "%s: %v", what, ids)
		}
		if sid != "" {
			// the old session id must now be unknown: error code 1
			req, _ := http.NewRequest("GET", "http://x/socket.io/?EIO=4&transport=polling&sid="+sid, nil)
			rec := httptest.NewRecorder()
			w.srv.ServeHTTP(rec, req)
			var body struct {
				Code *int `json:"code"`
			}
			json.Unmarshal(rec.Body.Bytes(), &body)
			if rec.Code != 400 || body.Code == nil || *body.Code != 1 {
				violate("eio: old session id not answered with 'unknown sid'", "%s: probe answered %d %q", what, rec.Code, rec.Body.String())
			}
		}
		// events that arrived complete before the cut must have been delivered at most once
		seen := map[int]int{}
		for _, n := range w.events {
			seen[n]++
			if seen[n] > 1 {
				violate("eio: event delivered twice around a cut", "%s: %v", what, w.events)
			}
		}
		sort.Ints(w.events)
	})
	if e.HarnessErr != "" {
		r.HarnessErrs = append(r.HarnessErrs, fmt.Sprintf("eio session cut at step %d (%s, byte %d): %s", cutStep, kind, cutAt, e.HarnessErr))
	}
	if len(e.Panics) > 0 {
		violate("eio: panic while handling a cut byte stream", "%v", e.Panics)
	}
	if e.Deadlock != "" {
		violate("eio: deadlock after a cut byte stream", "%s", e.Deadlock)
	}
	r.Evaluations++
	r.TracesValidated++
	r.Transitions += e.Steps
	if failKey != "" {
		r.Violate(failKey, strings.Join(fail, "; "), map[string]any{"part": "eio-byte-cut", "step": cutStep, "kind": kind, "at": cutAt})
	}
	return
}

func eioLevel(tier string, r *vx.Report) {
	reqLen, respLen := runSession(-1, "", 0, r) // fault-free run measures the lengths
	stride := 1
	cuts := 0
	for i := range reqLen {
		for k := 0; k < reqLen[i]; k += stride {
			runSession(i, "req", k, r)
			cuts++
		}
		for k := 0; k < respLen[i]; k += stride {
			runSession(i, "resp", k, r)
			cuts++
		}
	}
	r.DistinctNontriv += cuts
	r.States += cuts
	r.Extra["eio_byte_cut_points"] = cuts
	r.Extra["eio_script_request_body_lengths"] = reqLen
	r.Extra["eio_script_response_body_lengths"] = respLen
	r.Sample(map[string]any{"part": "eio-byte-cut", "script": "GET handshake; POST 40; GET; POST 42[\"e\",1]; POST 2 events; GET 2 server events; GET ping; POST pong; POST binary event", "example": "request body of step 4 cut at byte 7"})
}
