// C17: invalid Engine.IO requests get the protocol's error and create no session; accepted handshakes get
// ids unique among live sessions; a closed server admits nothing and has closed everything.
//
// (1) matrix: every request of method x EIO x transport x sid x b64 x j in four server states, each a real
// execution of eio.Server.ServeHTTP under the controlled scheduler (default schedule), judged by a
// reference validator that lists the faults present;
// (2) racing Close: handshake(s) || Server.Close || poll on a live session, all interleavings;
// (3) ids: crypto/rand scripted as an environment answer {same id as before, different}: every answer
// sequence up to length 12 drives sequential handshakes; two concurrent handshakes with forced equal ids;
// supplementary 1e5/1e6 really generated ids.
package main

import (
	crand "crypto/rand"
	"encoding/json"
	"flag"
	"fmt"
	"io"
	"net/http/httptest"
	"net/url"
	"os"
	"os/exec"
	"sort"
	"strconv"
	"strings"
	"sync"
	"time"

	eio "github.com/karagenc/socket.io-go/engine.io"
	"github.com/karagenc/socket.io-go/engine.io/parser"
	vx "github.com/karagenc/socket.io-go/internal/vexplore"
	"github.com/karagenc/socket.io-go/internal/vsched"
)

// ---------------------------------------------------------------- world: one real server + observers

const settle = 10 * time.Millisecond

func msg(s string) *parser.Packet {
	p, _ := parser.NewPacket(parser.PacketTypeMessage, false, []byte(s))
	return p
}

// sess is what the harness knows about one session the server announced through NewSocketCallback.
type sess struct {
	id      string
	sock    eio.ServerSocket
	closes  int
	reason  string
	packets []string
}

type world struct {
	proto string // "" = HTTP/1.1, "2" = HTTP/2 (request matrix)
	srv      *eio.Server
	v        vsched.Var
	accepted []*sess // in NewSocketCallback order
	srvErrs  []string
}

func newWorld() *world {
	w := &world{}
	w.srv = eio.NewServer(func(s eio.ServerSocket) *eio.Callbacks {
		x := &sess{id: s.ID(), sock: s}
		w.v.Do(func() { w.accepted = append(w.accepted, x) })
		return &eio.Callbacks{
			OnPacket: func(ps ...*parser.Packet) {
				w.v.Do(func() {
					for _, p := range ps {
						x.packets = append(x.packets, string(p.Type.ToChar())+string(p.Data))
					}
				})
			},
			OnClose: func(r eio.Reason, err error) {
				w.v.Do(func() { x.closes++; x.reason = string(r) })
			},
		}
	}, &eio.ServerConfig{OnError: func(err error) {
		w.v.Do(func() { w.srvErrs = append(w.srvErrs, err.Error()) })
	}})
	return w
}

func (w *world) nAccepted() int {
	n := 0
	w.v.Do(func() { n = len(w.accepted) })
	return n
}

func (w *world) find(id string) *sess {
	var s *sess
	if id == "" {
		return nil
	}
	w.v.Do(func() {
		for _, x := range w.accepted {
			if x.id == id {
				s = x
			}
		}
	})
	return s
}

func (w *world) closesOf(s *sess) int {
	n := 0
	w.v.Do(func() { n = s.closes })
	return n
}

// serveOn runs one request through the real handler on the calling (modelled) thread.
func (w *world) serveOn(rec *httptest.ResponseRecorder, method, rawQuery, body, ctype string) {
	var rd io.Reader
	if body != "" {
		rd = strings.NewReader(body)
	}
	req := httptest.NewRequest(method, "http://c17.test/engine.io/?"+rawQuery, rd)
	if w.proto == "2" {
		// what a TLS listener of net/http hands to the handler by default (only HTTP/3 is WebTransport's)
		req.Proto, req.ProtoMajor, req.ProtoMinor = "HTTP/2.0", 2, 0
	}
	if ctype != "" {
		req.Header.Set("Content-Type", ctype)
	}
	w.srv.ServeHTTP(rec, req)
}

type answer struct {
	Done   bool
	Status int
	Body   string
	Panic  string
}

func (a answer) String() string {
	if !a.Done {
		return "no answer (the request is still blocked)"
	}
	b := a.Body
	if len(b) > 120 {
		b = b[:120] + "..."
	}
	if a.Panic != "" {
		return "panic: " + a.Panic
	}
	return fmt.Sprintf("status %d body %q", a.Status, b)
}

// call issues the request on its own modelled thread and lets everything settle (a request that
// blocks - a long poll without data - therefore cannot block the harness).
func (w *world) call(method, rawQuery, body, ctype string) answer {
	rec := httptest.NewRecorder()
	var a answer
	vsched.GoQuiet("request", func() {
		defer func() {
			if p := recover(); p != nil {
				w.v.Do(func() { a.Panic = fmt.Sprint(p); a.Done = true })
			}
		}()
		w.serveOn(rec, method, rawQuery, body, ctype)
		w.v.Do(func() { a.Done = true })
	})
	vsched.Sleep(settle)
	var out answer
	w.v.Do(func() { out = a })
	if out.Done {
		out.Status = rec.Code
		out.Body = rec.Body.String()
	}
	return out
}

func query(eioV, tr, sid, b64, j string) string {
	var parts []string
	add := func(k, v string) {
		if v != "" {
			parts = append(parts, k+"="+url.QueryEscape(v))
		}
	}
	add("EIO", eioV)
	add("transport", tr)
	add("sid", sid)
	add("b64", b64)
	add("j", j)
	return strings.Join(parts, "&")
}

// unwrapJSONP undoes polling's JSON-P framing: ___eio[j]("<js-escaped payload>");
func unwrapJSONP(body, j string) (string, bool) {
	pre, suf := "___eio["+j+"](\"", "\");"
	if !strings.HasPrefix(body, pre) || !strings.HasSuffix(body, suf) || len(body) < len(pre)+len(suf) {
		return "", false
	}
	in := body[len(pre) : len(body)-len(suf)]
	var b strings.Builder
	for i := 0; i < len(in); i++ {
		c := in[i]
		if c != '\\' || i+1 >= len(in) {
			b.WriteByte(c)
			continue
		}
		i++
		if in[i] == 'u' && i+4 < len(in) {
			if n, err := strconv.ParseUint(in[i+1:i+5], 16, 32); err == nil {
				b.WriteRune(rune(n))
				i += 4
				continue
			}
		}
		b.WriteByte(in[i])
	}
	return b.String(), true
}

// payload returns the Engine.IO payload of a polling GET answer (JSON-P undone when j was given).
func payload(body, j string) (string, bool) {
	if j == "" {
		return body, true
	}
	return unwrapJSONP(body, j)
}

// openSID extracts the sid of an OPEN packet answered to a handshake.
func openSID(body, j string) (string, bool) {
	p, ok := payload(body, j)
	if !ok || len(p) < 2 || p[0] != '0' {
		return "", false
	}
	var h struct {
		SID string `json:"sid"`
	}
	if json.Unmarshal([]byte(p[1:]), &h) != nil || h.SID == "" {
		return "", false
	}
	return h.SID, true
}

func (w *world) handshake() (string, answer) {
	a := w.call("GET", "EIO=4&transport=polling", "", "")
	if !a.Done || a.Status != 200 {
		return "", a
	}
	sid, _ := openSID(a.Body, "")
	return sid, a
}

func (w *world) poll(sid string) ([]string, answer) {
	a := w.call("GET", query("4", "polling", sid, "", ""), "", "")
	var pk []string
	if a.Done && a.Status == 200 && a.Body != "" {
		pk = strings.Split(a.Body, "\x1e")
	}
	return pk, a
}

func sameStrings(a, b []string) bool {
	if len(a) != len(b) {
		return false
	}
	for i := range a {
		if a[i] != b[i] {
			return false
		}
	}
	return true
}

func contains(l []string, s string) bool {
	for _, x := range l {
		if x == s {
			return true
		}
	}
	return false
}

// ---------------------------------------------------------------- results of enumerated cases

type viol struct {
	Key    string `json:"key"`
	Msg    string `json:"msg"`
	Replay any    `json:"replay"`
	Idx    int    `json:"idx"` // position of the case in its enumeration (the earliest one is reported)
}

type caseOut struct {
	viols      []viol
	steps      int
	class      string // canonical (state, request class, observed answer)
	nontrivial bool
	harnessErr string
}

// runUnder executes body as thread 0 of a fresh execution at the default schedule and folds scheduler
// level findings (panic on a modelled thread, deadlock, mutex left held) into the case.
func runUnder(out *caseOut, what string, replay any, body func(e *vsched.Exec)) {
	completed := false
	e := vsched.Run(vsched.Options{Horizon: 10 * time.Second}, func(e *vsched.Exec) {
		body(e)
		completed = true
	})
	vsched.EnvRandScript = nil
	out.steps = e.Steps
	if e.HarnessErr != "" {
		out.harnessErr = what + ": " + e.HarnessErr
		return
	}
	for _, p := range e.Panics {
		out.viols = append(out.viols, viol{Key: "panic while serving: " + stripThread(p), Msg: what + ": " + p, Replay: replay})
	}
	if e.Deadlock != "" {
		out.viols = append(out.viols, viol{Key: "deadlock while serving", Msg: what + ": " + e.Deadlock, Replay: replay})
	} else if !completed && len(e.Panics) == 0 {
		out.harnessErr = what + ": the case body did not run to its end within the horizon"
	}
	for _, h := range e.HeldLocks() {
		if strings.Contains(h, "exited=true") {
			out.viols = append(out.viols, viol{Key: "mutex left held by a finished request", Msg: what + ": " + h, Replay: replay})
		}
	}
}

func stripThread(p string) string {
	if i := strings.Index(p, "): "); i >= 0 {
		p = p[i+3:]
	}
	if len(p) > 120 {
		p = p[:120]
	}
	return p
}

// ---------------------------------------------------------------- part 1: the request matrix

type rq struct {
	Method, EIO, Transport, SID, B64, J string // "" = parameter absent; SID is a kind: "", unknown, live, closed
	Proto                               string `json:",omitempty"` // "" = HTTP/1.1, "2" = HTTP/2
}

func dash(s string) string {
	if s == "" {
		return "-"
	}
	return s
}

func (q rq) String() string {
	v := ""
	if q.Proto != "" {
		v = " over HTTP/" + q.Proto
	}
	return fmt.Sprintf("%s EIO=%s transport=%s sid=%s b64=%s j=%s%s", q.Method, dash(q.EIO), dash(q.Transport), dash(q.SID), dash(q.B64), dash(q.J), v)
}

var (
	mMethods    = []string{"GET", "POST", "PUT", "DELETE", "OPTIONS"}
	mEIO        = []string{"", "3", "4", "5", "x"}
	mTransports = []string{"", "polling", "websocket", "x"}
	mSIDs       = []string{"", "unknown", "live", "closed"}
	mB64        = []string{"", "1"}
	mJ          = []string{"", "0"}
	mStates     = []string{"fresh", "live", "session-closed", "server-closed"}
)

type mcase struct {
	State string `json:"state"`
	Req   rq     `json:"request"`
}

func matrixCases() []mcase {
	var out []mcase
	for _, st := range mStates {
		for _, m := range mMethods {
			for _, v := range mEIO {
				for _, t := range mTransports {
					for _, s := range mSIDs {
						for _, b := range mB64 {
							for _, j := range mJ {
								out = append(out, mcase{st, rq{Method: m, EIO: v, Transport: t, SID: s, B64: b, J: j}})
								if b == "" && j == "" {
									// the same request over HTTP/2 (seed c17i: checks skipped for every request above HTTP/1)
									out = append(out, mcase{st, rq{Method: m, EIO: v, Transport: t, SID: s, Proto: "2"}})
								}
							}
						}
					}
				}
			}
		}
	}
	return out
}

type fault struct {
	name  string
	codes []int
}

// validate is the reference validator: the faults a request carries in a given server state. The
// protocol codes are those of the Engine.IO reference server (0 unknown transport, 1 unknown sid,
// 2 bad handshake method, 3 bad request, 5 unsupported protocol version).
func validate(state string, q rq, sidLive bool) (faults []fault) {
	if q.EIO != strconv.Itoa(eio.ProtocolVersion) {
		faults = append(faults, fault{"bad version", []int{eio.ErrorUnsupportedProtocolVersion}})
	}
	knownTransport := q.Transport == "polling" || q.Transport == "websocket"
	if q.SID == "" {
		if q.Method != "GET" {
			faults = append(faults, fault{"bad handshake method", []int{eio.ErrorBadHandshakeMethod}})
		}
		if !knownTransport {
			faults = append(faults, fault{"unknown transport", []int{eio.ErrorUnknownTransport}})
		}
		return
	}
	if !sidLive {
		name := "unknown sid"
		if state != "fresh" && q.SID != "unknown" {
			name = "closed sid"
		}
		faults = append(faults, fault{name, []int{eio.ErrorUnknownSID}})
	}
	if !knownTransport {
		// with a sid the reference server answers 0 (transport unknown), this one 3 (bad request): the
		// protocol text fixes neither, both are accepted
		faults = append(faults, fault{"unknown transport", []int{eio.ErrorUnknownTransport, eio.ErrorBadRequest}})
	}
	return
}

func runMatrixCase(c mcase) (out caseOut) {
	state, q := c.State, c.Req
	replay := map[string]any{"part": "matrix", "state": state, "request": q}
	where := fmt.Sprintf("state %q, request %v", state, q)
	bad := func(key, format string, a ...any) {
		out.viols = append(out.viols, viol{Key: key, Msg: where + ": " + fmt.Sprintf(format, a...), Replay: replay})
	}
	runUnder(&out, where, replay, func(e *vsched.Exec) {
		w := newWorld()
		var L, D *sess
		if state != "fresh" {
			dsid, a := w.handshake()
			if D = w.find(dsid); D == nil {
				bad("valid polling handshake refused during set-up", "%v", a)
				return
			}
			// the 'closed' session ends in a different way in each state: closed by the server application,
			// by the client's CLOSE packet, by a transport error (undecodable request body)
			switch state {
			case "live":
				w.call("POST", query("4", "polling", dsid, "", ""), "1", "text/plain;charset=UTF-8")
			case "session-closed":
				w.call("POST", query("4", "polling", dsid, "", ""), "4ok\x1ebAAA*", "text/plain;charset=UTF-8")
			default:
				D.sock.Close()
			}
			vsched.Sleep(settle)
			lsid, a := w.handshake()
			if L = w.find(lsid); L == nil || L == D {
				bad("valid polling handshake refused during set-up", "second handshake: %v", a)
				return
			}
			L.sock.Send(msg("queued"))
			switch state {
			case "session-closed":
				L.sock.Close()
				vsched.Sleep(settle)
			case "server-closed":
				w.srv.Close()
				vsched.Sleep(settle)
			}
			// the states themselves
			ids := w.srv.VerifC17StoreIDs()
			wantIDs := []string{}
			if state == "live" {
				wantIDs = []string{L.id}
			}
			if !sameStrings(ids, wantIDs) {
				if state == "server-closed" {
					bad("Server.Close leaves a session in the store", "store holds %d session(s) after Close returned", len(ids))
				} else {
					bad("closing a session does not remove exactly that session", "store %v, expected %v", ids, wantIDs)
				}
				return
			}
			if w.closesOf(D) == 0 || (state != "live" && w.closesOf(L) == 0) {
				if state == "server-closed" {
					bad("Server.Close leaves an existing session open", "the live session never saw OnClose")
				} else {
					bad("closed session never saw OnClose", "closes: D=%d L=%d", w.closesOf(D), w.closesOf(L))
				}
				return
			}
		}
		ids0 := w.srv.VerifC17StoreIDs()
		n0 := w.nAccepted()

		sidVal := ""
		switch q.SID {
		case "unknown":
			sidVal = "AAAAAAAAAAAAAAAAAAAA"
		case "live":
			sidVal = "c17NeverIssuedLiveAA"
			if L != nil {
				sidVal = L.id
			}
		case "closed":
			sidVal = "c17NeverIssuedDeadAA"
			if D != nil {
				sidVal = D.id
			}
		}
		sidLive := state == "live" && q.SID == "live"
		body, ctype := "", ""
		if q.Method == "POST" {
			body, ctype = "4hello", "text/plain;charset=UTF-8"
			if q.J != "" {
				body, ctype = "d=4hello", "application/x-www-form-urlencoded"
			}
		}
		w.proto = q.Proto
		a := w.call(q.Method, query(q.EIO, q.Transport, sidVal, q.B64, q.J), body, ctype)
		w.proto = ""

		// ---- classify
		faults := validate(state, q, sidLive)
		kind := "session request"
		if q.SID == "" {
			kind = "handshake"
		}
		var class string
		createsSession, consumesQueued := false, false
		switch {
		case state == "server-closed":
			class = "request to a closed server"
		case len(faults) > 0:
			var names []string
			for _, f := range faults {
				names = append(names, f.name)
			}
			class = kind + " with " + strings.Join(names, " and ")
		case q.SID == "" && q.Transport == "polling":
			class = "valid polling handshake"
			createsSession = true
		case q.SID == "":
			class = "websocket handshake without upgrade headers"
		case q.Transport == "polling" && q.Method == "GET":
			class = "valid poll of the live session"
			consumesQueued = true
		case q.Transport == "polling" && q.Method == "POST":
			class = "valid POST to the live session"
		case q.Transport == "polling":
			class = "unexpected method on the live polling session"
		default:
			class = "upgrade request without upgrade headers on the live session"
		}
		out.nontrivial = state == "server-closed" || len(faults) > 0 || q.SID == ""
		obs := "blocked"
		if a.Done {
			obs = strconv.Itoa(a.Status)
		}

		// ---- the answer
		if !a.Done {
			bad(class+" is never answered", "%v", a)
		} else if a.Panic != "" {
			bad(class+" panics the handler", "%v", a)
		} else if state == "server-closed" {
			if a.Status != 503 {
				bad(class+" answered with status other than 503", "%v", a)
			}
		} else if len(faults) > 0 {
			var allowed []int
			for _, f := range faults {
				for _, c := range f.codes {
					dup := false
					for _, x := range allowed {
						dup = dup || x == c
					}
					if !dup {
						allowed = append(allowed, c)
					}
				}
			}
			sort.Ints(allowed)
			var se struct {
				Code    *int   `json:"code"`
				Message string `json:"message"`
			}
			if a.Status != 400 {
				bad(fmt.Sprintf("%s answered with status %d", class, a.Status), "%v; expected 400 with code among %v", a, allowed)
			} else if json.Unmarshal([]byte(a.Body), &se) != nil || se.Code == nil {
				bad(class+" answered 400 without a JSON error body", "%v; expected code among %v", a, allowed)
			} else {
				obs += "/" + strconv.Itoa(*se.Code)
				ok := false
				for _, c := range allowed {
					ok = ok || c == *se.Code
				}
				if !ok {
					bad(fmt.Sprintf("%s answered with code %d", class, *se.Code), "%v; the faults present allow %v", a, allowed)
				}
			}
		}
		out.class = state + "|" + class + "|" + obs

		// ---- sessions created / altered
		ids1 := w.srv.VerifC17StoreIDs()
		n1 := w.nAccepted()
		if createsSession {
			sid, ok := openSID(a.Body, q.J)
			switch {
			case !a.Done:
			case a.Status != 200 || !ok:
				bad(class+" not answered with an OPEN packet", "%v", a)
			case contains(ids0, sid):
				bad("accepted handshake reuses a live session id", "OPEN carries sid %q which is already live (%v)", sid, ids0)
			case n1 != n0+1:
				bad(class+" does not invoke NewSocketCallback exactly once", "%d invocations", n1-n0)
			default:
				want := append(append([]string{}, ids0...), sid)
				sort.Strings(want)
				N := w.find(sid)
				if !sameStrings(ids1, want) || N == nil {
					bad(class+" does not store exactly the new session", "store %v, expected %v", ids1, want)
				} else {
					N.sock.Send(msg("hi"))
					pk, pa := w.poll(sid)
					if !sameStrings(pk, []string{"4hi"}) {
						bad(class+" yields a session that does not work", "poll of the new session: %v", pa)
					}
				}
			}
		} else {
			if n1 != n0 {
				bad(class+" invokes NewSocketCallback", "%d invocation(s); answer: %v", n1-n0, a)
			}
			if !sameStrings(ids0, ids1) {
				bad(class+" changes the set of live sessions", "before %v, after %v; answer: %v", ids0, ids1, a)
			}
		}
		if state == "server-closed" {
			return
		}

		// ---- valid traffic on the live session (harness sanity more than property)
		if consumesQueued && a.Done {
			p, ok := payload(a.Body, q.J)
			if a.Status != 200 || !ok || p != "4queued" {
				bad(class+" does not return the queued packet", "%v", a)
				consumesQueued = false
			}
		}
		if class == "valid POST to the live session" && a.Done {
			var got []string
			w.v.Do(func() { got = append(got, L.packets...) })
			if a.Status != 200 || !sameStrings(got, []string{"4hello"}) {
				bad(class+" is not delivered", "%v; OnPacket saw %v", a, got)
			}
		}

		// ---- the live session is intact: still open, still answers its queued packet
		if state == "live" {
			if w.closesOf(L) != 0 {
				bad(class+" closes the live session", "OnClose reason %q; answer: %v", L.reason, a)
				return
			}
			L.sock.Send(msg("after"))
			want := []string{"4queued", "4after"}
			if consumesQueued {
				want = []string{"4after"}
			}
			pk, pa := w.poll(L.id)
			if !sameStrings(pk, want) {
				bad(class+" damages the live session's queue", "next poll of the live session: %v, expected packets %v; answer to the request: %v", pa, want, a)
			}
			if w.closesOf(L) != 0 {
				bad(class+" closes the live session", "OnClose reason %q after the follow-up poll", L.reason)
			}
		}
	})
	return
}

// ---------------------------------------------------------------- part 3a: scripted id collisions, sequential

type idcase struct {
	Answers string `json:"answers"` // one letter per generated id after the first: S = same id as the previous one, D = different
}

func idCases(maxLen int) []idcase {
	out := []idcase{{""}}
	for n := 1; n <= maxLen; n++ {
		for x := 0; x < 1<<n; x++ {
			b := make([]byte, n)
			for i := range b {
				b[i] = 'D'
				if x>>(n-1-i)&1 == 1 {
					b[i] = 'S'
				}
			}
			out = append(out, idcase{string(b)})
		}
	}
	return out
}

func runIDCase(c idcase) (out caseOut) {
	replay := map[string]any{"part": "ids", "answers": c.Answers}
	where := fmt.Sprintf("id answers %q", c.Answers)
	bad := func(key, format string, a ...any) {
		out.viols = append(out.viols, viol{Key: key, Msg: where + ": " + fmt.Sprintf(format, a...), Replay: replay})
	}
	same := func(i int) bool { // is generated id number i (0-based) scripted to equal id i-1?
		return i >= 1 && i-1 < len(c.Answers) && c.Answers[i-1] == 'S'
	}
	var trace []string
	runUnder(&out, where, replay, func(e *vsched.Exec) {
		w := newWorld()
		k := 0
		var prev []byte
		vsched.EnvRandScript = func(b []byte) {
			cur := eio.VerifC17IDSeq() - 1 // the sequence number this id carries
			if same(k) && len(prev) == len(b) {
				copy(b, prev)
			} else {
				for i := range b {
					b[i] = byte(17*k + 3*i + 1)
				}
				b[0] = byte(k + 1)
			}
			prev = append(prev[:0], b...)
			k++
			if same(k) {
				// the next id shall collide: the state "2^24 ids later" (only the low 24 bits of the
				// sequence number survive in an id)
				eio.VerifC17SetIDSeq(cur + 1<<24)
			}
		}
		retryLimit := eio.Base64IDMaxTry
		for h := 0; h < 14; h++ {
			if h >= 2 && k-1 >= len(c.Answers) {
				break
			}
			k0 := k
			ids0 := w.srv.VerifC17StoreIDs()
			n0 := w.nAccepted()
			a := w.call("GET", "EIO=4&transport=polling", "", "")
			coll := 0
			for i := k0; i < k; i++ {
				if same(i) {
					coll++
				}
			}
			ids1 := w.srv.VerifC17StoreIDs()
			n1 := w.nAccepted()
			sid, ok := openSID(a.Body, "")
			switch {
			case !a.Done || a.Panic != "":
				bad("handshake under id collisions is never answered", "handshake %d after %d collisions: %v", h, coll, a)
				return
			case a.Status == 200 && ok:
				trace = append(trace, fmt.Sprintf("ok(%d)", coll))
				if contains(ids0, sid) {
					bad("accepted handshake reuses a live session id", "handshake %d (%d colliding ids generated): OPEN carries sid %q, live before: %v", h, coll, sid, ids0)
					return
				}
				want := append(append([]string{}, ids0...), sid)
				sort.Strings(want)
				if n1 != n0+1 || !sameStrings(ids1, want) {
					bad("handshake after id collisions does not create exactly one session", "handshake %d: %d callback(s), store %v, expected %v", h, n1-n0, ids1, want)
					return
				}
			case a.Status >= 500 && a.Status <= 599:
				trace = append(trace, fmt.Sprintf("%d(%d)", a.Status, coll))
				if coll < retryLimit {
					bad("handshake refused before the id retry limit", "handshake %d refused with %d after only %d colliding ids (Base64IDMaxTry=%d)", h, a.Status, coll, retryLimit)
				}
				if n1 != n0 || !sameStrings(ids0, ids1) {
					bad("handshake refused for id collisions is not clean", "handshake %d answered %d but %d callback(s) ran, store before %v after %v", h, a.Status, n1-n0, ids0, ids1)
					return
				}
			default:
				bad("handshake under id collisions answered neither OPEN nor 5xx", "handshake %d after %d collisions: %v", h, coll, a)
				return
			}
		}
		// every accepted session is live, distinct and still works
		var acc []*sess
		w.v.Do(func() { acc = append(acc, w.accepted...) })
		var ids []string
		for i, s := range acc {
			if contains(ids, s.id) {
				bad("two live sessions share an id", "session %d has id %q again", i, s.id)
				return
			}
			ids = append(ids, s.id)
			if w.closesOf(s) != 0 {
				bad("id collision closes an earlier session", "session %d saw OnClose (%s)", i, s.reason)
				return
			}
			s.sock.Send(msg(fmt.Sprintf("m%d", i)))
			pk, pa := w.poll(s.id)
			if !sameStrings(pk, []string{fmt.Sprintf("4m%d", i)}) {
				bad("earlier session stops working after an id collision", "session %d of %d: poll %v", i, len(acc), pa)
				return
			}
		}
		sort.Strings(ids)
		if st := w.srv.VerifC17StoreIDs(); !sameStrings(st, ids) {
			bad("store and accepted sessions disagree after id collisions", "store %v, accepted %v", st, ids)
		}
	})
	out.class = "ids|" + strings.Join(trace, ",")
	out.nontrivial = strings.Contains(c.Answers, "S")
	return
}

// ---------------------------------------------------------------- sharded execution of enumerated cases

type shardOut struct {
	Cases      int            `json:"cases"`
	Nontrivial int            `json:"nontrivial"`
	Steps      int            `json:"steps"`
	Classes    map[string]int `json:"classes"`
	Viols      []viol         `json:"viols"`
	Counts     map[string]int `json:"counts"`
	HarnessErr string         `json:"harness_err,omitempty"`
	Cap        string         `json:"cap,omitempty"`
}

func idMaxLen(tier string) int { return 12 }

func runShard(part, tier string, shard, n int, deadline time.Time) *shardOut {
	so := &shardOut{Classes: map[string]int{}, Counts: map[string]int{}}
	add := func(idx int, o caseOut) {
		so.Cases++
		so.Steps += o.steps
		if o.nontrivial {
			so.Nontrivial++
		}
		so.Classes[o.class]++
		for _, v := range o.viols {
			if so.Counts[v.Key] == 0 {
				v.Idx = idx
				so.Viols = append(so.Viols, v)
			}
			so.Counts[v.Key]++
		}
		if o.harnessErr != "" && so.HarnessErr == "" {
			so.HarnessErr = o.harnessErr
		}
	}
	switch part {
	case "matrix":
		for i, c := range matrixCases() {
			if i%n != shard {
				continue
			}
			if time.Now().After(deadline) {
				so.Cap = "matrix: deadline"
				break
			}
			add(i, runMatrixCase(c))
		}
	case "ids":
		for i, c := range idCases(idMaxLen(tier)) {
			if i%n != shard {
				continue
			}
			if time.Now().After(deadline) {
				so.Cap = "ids: deadline"
				break
			}
			add(i, runIDCase(c))
		}
	}
	return so
}

// runSharded runs a part over worker processes (a crash or hang of one is a harness error naming it).
func runSharded(part, tier string, procs int, deadline time.Time) (*shardOut, []string) {
	self, _ := os.Executable()
	outs := make([]*shardOut, procs)
	errs := make([]string, procs)
	var wg sync.WaitGroup
	for i := 0; i < procs; i++ {
		wg.Add(1)
		go func(i int) {
			defer wg.Done()
			cmd := exec.Command(self, "-c17shard", part, tier, strconv.Itoa(i), strconv.Itoa(procs), strconv.FormatInt(deadline.UnixMilli(), 10))
			cmd.Env = append(os.Environ(), "GOMAXPROCS=2")
			var stderr strings.Builder
			cmd.Stderr = &stderr
			b, err := cmd.Output()
			so := &shardOut{}
			if pos := strings.LastIndex(string(b), "RESULT "); pos >= 0 && json.Unmarshal(b[pos+7:], so) == nil {
				outs[i] = so
				return
			}
			tail := stderr.String()
			if len(tail) > 2000 {
				tail = tail[:1000] + "\n...\n" + tail[len(tail)-1000:]
			}
			errs[i] = fmt.Sprintf("%s shard %d/%d died (%v): %s", part, i, procs, err, tail)
		}(i)
	}
	wg.Wait()
	total := &shardOut{Classes: map[string]int{}, Counts: map[string]int{}}
	var herrs []string
	for i, so := range outs {
		if so == nil {
			herrs = append(herrs, errs[i])
			continue
		}
		total.Cases += so.Cases
		total.Nontrivial += so.Nontrivial
		total.Steps += so.Steps
		for k, v := range so.Classes {
			total.Classes[k] += v
		}
		for _, v := range so.Viols {
			seen := false
			for j := range total.Viols {
				if total.Viols[j].Key == v.Key {
					seen = true
					if v.Idx < total.Viols[j].Idx {
						total.Viols[j] = v
					}
				}
			}
			if !seen {
				total.Viols = append(total.Viols, v)
			}
		}
		for k, v := range so.Counts {
			total.Counts[k] += v
		}
		if so.HarnessErr != "" {
			herrs = append(herrs, so.HarnessErr)
		}
		if so.Cap != "" && total.Cap == "" {
			total.Cap = so.Cap
		}
	}
	return total, herrs
}

func shardMain(args []string) {
	if len(args) != 5 {
		fmt.Fprintln(os.Stderr, "usage: -c17shard part tier shard n deadlineMs")
		os.Exit(2)
	}
	shard, _ := strconv.Atoi(args[2])
	n, _ := strconv.Atoi(args[3])
	dl, _ := strconv.ParseInt(args[4], 10, 64)
	so := runShard(args[0], args[1], shard, n, time.UnixMilli(dl))
	b, _ := json.Marshal(so)
	fmt.Println("RESULT " + string(b))
}

// ---------------------------------------------------------------- part 2: requests racing Server.Close

type hres struct {
	done   bool
	status int
	sid    string
}

// closeRace: `handshakes` handshake threads || Server.Close (|| a poll on a session that was live before).
// delayBounded selects the delay-bounding cost model (every non-default choice costs) instead of CHESS
// (only preemptions cost) for the scenarios with many short-lived threads.
func closeRace(name string, handshakes int, withLive, withPoll bool, bound int, delayBounded bool) *vx.Scenario {
	sc := &vx.Scenario{Name: name, PreemptOnly: !delayBounded, Horizon: time.Second}
	if bound < 0 {
		sc.Unbounded = true
	} else {
		sc.Bound = bound
	}
	sc.Body = func(e *vsched.Exec) func() vx.Result {
		vsched.EnvRandScript = nil
		w := newWorld()
		var L *sess
		setupFailed := ""
		if withLive {
			rec := httptest.NewRecorder()
			w.serveOn(rec, "GET", "EIO=4&transport=polling", "", "")
			sid, _ := openSID(rec.Body.String(), "")
			if L = w.find(sid); L == nil {
				setupFailed = fmt.Sprintf("status %d body %q", rec.Code, rec.Body.String())
			}
		}
		hs := make([]hres, handshakes)
		closeReturned := false
		pollStatus := -1
		if setupFailed == "" {
			for i := range hs {
				i := i
				vsched.GoQuiet(fmt.Sprintf("handshake%d", i), func() {
					rec := httptest.NewRecorder()
					w.serveOn(rec, "GET", "EIO=4&transport=polling", "", "")
					sid, _ := openSID(rec.Body.String(), "")
					w.v.Do(func() { hs[i] = hres{true, rec.Code, sid} })
				})
			}
			vsched.GoQuiet("close", func() {
				w.srv.Close()
				w.v.Do(func() { closeReturned = true })
			})
			if withPoll && L != nil {
				vsched.GoQuiet("poll", func() {
					rec := httptest.NewRecorder()
					w.serveOn(rec, "GET", query("4", "polling", L.id, "", ""), "", "")
					w.v.Do(func() { pollStatus = rec.Code })
				})
			}
		}
		return func() vx.Result {
			var r vx.Result
			if setupFailed != "" {
				r.Outcome = "set-up failed"
				r.Violate("valid polling handshake refused during set-up", "%s", setupFailed)
				return r
			}
			ids := w.srv.VerifC17StoreIDs() // no thread runs any more: locks are no-ops here
			var hsOut []string
			for _, h := range hs {
				switch {
				case !h.done:
					hsOut = append(hsOut, "blocked")
				case h.sid != "":
					hsOut = append(hsOut, fmt.Sprintf("%d+OPEN", h.status))
				default:
					hsOut = append(hsOut, strconv.Itoa(h.status))
				}
			}
			sort.Strings(hsOut)
			open, openL := 0, false
			for _, s := range w.accepted {
				if s.closes == 0 {
					open++
					if s == L {
						openL = true
					}
				}
			}
			r.Outcome = fmt.Sprintf("handshakes=%v closeReturned=%v accepted=%d stillOpen=%d store=%d poll=%d", hsOut, closeReturned, len(w.accepted), open, len(ids), pollStatus)
			if !closeReturned {
				r.Violate("Server.Close does not return", "%s", r.Outcome)
				return r
			}
			// the server is closed: nothing may be live any more
			switch {
			case openL:
				r.Violate("Server.Close leaves an existing session open", "the session that was live before Close never saw OnClose (%s)", r.Outcome)
			case open > 0 || len(ids) > open:
				stored := 0
				for _, s := range w.accepted {
					if s.closes == 0 && contains(ids, s.id) {
						stored++
					}
				}
				if open > 0 {
					r.Violate("handshake racing Close leaves a live session on a closed server",
						"after Close returned, %d session(s) accepted by a racing handshake never saw OnClose and %d of them are still in the store (store size %d): ServeHTTP tests IsClosed before the session is stored, Close snapshots the store once (%s)",
						open, stored, len(ids), r.Outcome)
				} else {
					r.Violate("closed session remains in the store of a closed server", "store holds %d session(s), all of which saw OnClose (%s)", len(ids), r.Outcome)
				}
			}
			return r
		}
	}
	return sc
}

// ---------------------------------------------------------------- part 3b: two concurrent handshakes, forced equal ids

func collideScenario(bound int) *vx.Scenario {
	sc := &vx.Scenario{Name: "ids/2-concurrent-handshakes-forced-equal-ids", PreemptOnly: true, Bound: bound, Horizon: time.Second}
	sc.Body = func(e *vsched.Exec) func() vx.Result {
		w := newWorld()
		n := 0
		cannot := false
		// The first two generated ids are byte-for-byte equal (random part and sequence part: the
		// buffer handed to rand.Read is a prefix of the id buffer), later ones are fresh.
		vsched.EnvRandScript = func(b []byte) {
			k := 0
			w.v.Do(func() { n++; k = n })
			full := b[:cap(b)]
			if len(full) < eio.Base64IDSize {
				cannot = true
				return
			}
			if k <= 2 {
				for i := range full {
					full[i] = 0x5a
				}
				return
			}
			for i := range b {
				b[i] = byte(31*k + i)
			}
		}
		hs := make([]hres, 2)
		for i := range hs {
			i := i
			vsched.GoQuiet(fmt.Sprintf("handshake%d", i), func() {
				rec := httptest.NewRecorder()
				w.serveOn(rec, "GET", "EIO=4&transport=polling", "", "")
				sid, _ := openSID(rec.Body.String(), "")
				w.v.Do(func() { hs[i] = hres{true, rec.Code, sid} })
			})
		}
		return func() vx.Result {
			vsched.EnvRandScript = nil
			var r vx.Result
			if cannot {
				r.Outcome = "cannot force equal ids (the random buffer is no longer a prefix of the id buffer)"
				return r
			}
			ids := w.srv.VerifC17StoreIDs()
			var live []string
			dupLive := false
			displaced := 0
			for _, s := range w.accepted {
				if s.closes == 0 {
					dupLive = dupLive || contains(live, s.id)
					live = append(live, s.id)
					if !contains(ids, s.id) {
						displaced++
					}
				}
			}
			var hsOut []string
			for _, h := range hs {
				o := strconv.Itoa(h.status)
				if h.sid != "" {
					o += "+OPEN"
				}
				hsOut = append(hsOut, o)
			}
			sort.Strings(hsOut)
			sameSidAnswered := hs[0].sid != "" && hs[0].sid == hs[1].sid
			r.Outcome = fmt.Sprintf("answers=%v bothClientsGotTheSameSid=%v callbacks=%d live=%d liveButNotInStore=%d store=%d ids=%d", hsOut, sameSidAnswered, len(w.accepted), len(live), displaced, len(ids), n)
			if dupLive {
				r.Violate("two live sessions share an id", "%s", r.Outcome)
			}
			return r
		}
	}
	return sc
}

// ---------------------------------------------------------------- supplementary: really generated ids

func generatedIDs(n int, random bool) (distinct int, err error) {
	if random {
		vsched.EnvRandScript = func(b []byte) { crand.Read(b) }
		defer func() { vsched.EnvRandScript = nil }()
	}
	ids := make([]string, 0, n)
	for i := 0; i < n; i++ {
		id, e := eio.GenerateBase64ID(eio.Base64IDSize)
		if e != nil {
			return 0, e
		}
		ids = append(ids, id)
	}
	sort.Strings(ids)
	distinct = 1
	for i := 1; i < len(ids); i++ {
		if ids[i] != ids[i-1] {
			distinct++
		}
	}
	return distinct, nil
}

// ---------------------------------------------------------------- main

func scenarios(tier string) []*vx.Scenario {
	const chess, delay = false, true
	if tier != "thorough" {
		return []*vx.Scenario{
			// bounded first: its counterexample has the fewest preemptions and is the one reported
			closeRace("close/handshake-vs-close/preemption-bound-2", 1, false, false, 2, chess),
			closeRace("close/handshake-vs-close/all-interleavings", 1, false, false, -1, chess),
			closeRace("close/poll-vs-close/preemption-bound-2", 0, true, true, 2, chess),
			closeRace("close/handshake-vs-close-with-live-session/delay-bound-3", 1, true, false, 3, delay),
			closeRace("close/handshake-vs-close-vs-poll/delay-bound-3", 1, true, true, 3, delay),
			closeRace("close/2-handshakes-vs-close/delay-bound-3", 2, false, false, 3, delay),
			collideScenario(2),
		}
	}
	return []*vx.Scenario{
		closeRace("close/handshake-vs-close/preemption-bound-3", 1, false, false, 3, chess),
		closeRace("close/handshake-vs-close/all-interleavings", 1, false, false, -1, chess),
		closeRace("close/poll-vs-close/preemption-bound-3", 0, true, true, 3, chess),
		closeRace("close/poll-vs-close/all-interleavings", 0, true, true, -1, chess),
		closeRace("close/handshake-vs-close-with-live-session/preemption-bound-2", 1, true, false, 2, chess),
		closeRace("close/handshake-vs-close-with-live-session/delay-bound-4", 1, true, false, 4, delay),
		closeRace("close/handshake-vs-close-vs-poll/preemption-bound-1", 1, true, true, 1, chess),
		closeRace("close/handshake-vs-close-vs-poll/delay-bound-3", 1, true, true, 3, delay),
		closeRace("close/2-handshakes-vs-close/preemption-bound-2", 2, false, false, 2, chess),
		closeRace("close/2-handshakes-vs-close/delay-bound-3", 2, false, false, 3, delay),
		collideScenario(3),
	}
}

func extra(tier string, r *vx.Report) {
	procs := 4
	if f := flag.Lookup("procs"); f != nil {
		if n, err := strconv.Atoi(f.Value.String()); err == nil && n >= 1 && n < procs {
			procs = n
		}
	}
	budget := 70 * time.Second
	if tier == "thorough" {
		budget = 6 * time.Minute
	}
	deadline := time.Now().Add(budget)
	for _, part := range []string{"matrix", "ids"} {
		t0 := time.Now()
		so, herrs := runSharded(part, tier, procs, deadline)
		r.HarnessErrs = append(r.HarnessErrs, herrs...)
		if so.Cap != "" {
			r.CapsHit = append(r.CapsHit, so.Cap)
		}
		r.Evaluations += so.Cases
		r.TracesValidated += so.Cases
		r.Transitions += so.Steps
		r.States += len(so.Classes)
		r.DistinctNontriv += so.Nontrivial
		sort.Slice(so.Viols, func(i, j int) bool { return so.Viols[i].Key < so.Viols[j].Key })
		for _, v := range so.Viols {
			for k := 0; k < so.Counts[v.Key]; k++ {
				r.Violate(v.Key, fmt.Sprintf("%s (in %d cases)", v.Msg, so.Counts[v.Key]), v.Replay)
			}
		}
		classes := make([]string, 0, len(so.Classes))
		for k, n := range so.Classes {
			classes = append(classes, fmt.Sprintf("%s x%d", k, n))
		}
		sort.Strings(classes)
		info := map[string]any{"cases_executed": so.Cases, "statement_relevant_cases": so.Nontrivial, "scheduling_steps": so.Steps,
			"distinct_state_class_answer": len(so.Classes), "wall_s": time.Since(t0).Seconds(), "worker_processes": procs}
		if part == "matrix" {
			info["classes"] = classes
			info["dimensions"] = map[string]any{"states": mStates, "methods": mMethods, "EIO": mEIO, "transport": mTransports, "sid": mSIDs, "b64": mB64, "j": mJ}
		} else {
			info["max_answer_sequence_length"] = idMaxLen(tier)
			info["retry_limit_constant"] = eio.Base64IDMaxTry
			if len(classes) > 40 {
				classes = classes[:40]
			}
			info["handshake_result_sequences(first 40)"] = classes
		}
		r.Extra[part] = info
	}
	r.Sample(map[string]any{"part": "matrix", "state": "live", "request": rq{Method: "POST", EIO: "5", Transport: "x", SID: "unknown", B64: "1"}.String(), "validator": "bad version + unknown sid + unknown transport => 400 with code among [0 1 3 5], no callback, store unchanged, live session still answers [queued, after]"})
	r.Sample(map[string]any{"part": "ids", "answers": "SSD", "meaning": "2nd handshake generates the live id twice, then a fresh one: must be answered OPEN with a new sid"})

	// observations of the concurrent forced collision (not verdicts; the verdict part runs as a scenario)
	cb := 2
	if tier == "thorough" {
		cb = 3
	}
	st := vx.Explore(collideScenario(cb), 0, time.Now().Add(30*time.Second))
	vsched.EnvRandScript = nil
	r.Extra["ids/concurrent-forced-collision observations (outcome -> executions; not verdicts)"] = st.Outcomes

	// supplementary: ids as really generated
	n := 100_000
	if tier == "thorough" {
		n = 1_000_000
	}
	dr, err1 := generatedIDs(n, true)
	dc, err2 := generatedIDs(n, false)
	r.Extra["generated_ids"] = map[string]any{"generated": n, "distinct_with_real_crypto_rand": dr, "distinct_with_constant_random_part(sequence only)": dc, "errors": fmt.Sprint(err1, err2)}
	if err1 != nil || err2 != nil || dr != n || dc != n {
		r.Violate("generated session ids repeat", fmt.Sprintf("%d ids generated: %d distinct with crypto/rand, %d distinct with a constant random part (errors: %v %v)", n, dr, dc, err1, err2), map[string]any{"part": "generated-ids", "n": n})
	}
}

// ownReplay re-runs an enumerated case recorded in a replay file (the explorer replays schedules itself).
func ownReplay(path string) bool {
	b, err := os.ReadFile(path)
	if err != nil {
		return false
	}
	var f struct {
		Key    string `json:"key"`
		Replay struct {
			Part    string `json:"part"`
			State   string `json:"state"`
			Request rq     `json:"request"`
			Answers string `json:"answers"`
		} `json:"replay"`
	}
	if json.Unmarshal(b, &f) != nil || (f.Replay.Part != "matrix" && f.Replay.Part != "ids") {
		return false
	}
	var o caseOut
	if f.Replay.Part == "matrix" {
		o = runMatrixCase(mcase{f.Replay.State, f.Replay.Request})
	} else {
		o = runIDCase(idcase{f.Replay.Answers})
	}
	if o.harnessErr != "" {
		fmt.Println("HARNESS-ERROR", o.harnessErr)
		os.Exit(2)
	}
	hit := false
	fmt.Printf("outcome: %s\n", o.class)
	for _, v := range o.viols {
		fmt.Printf("violation key=%q: %s\n", v.Key, v.Msg)
		hit = hit || v.Key == f.Key
	}
	if hit {
		fmt.Printf("VIOLATION property=C17 replay=%s\n", path)
		os.Exit(1)
	}
	fmt.Println("the recorded violation does not occur on this tree")
	os.Exit(0)
	return true
}

func main() {
	if len(os.Args) > 1 && os.Args[1] == "-c17shard" {
		shardMain(os.Args[2:])
		return
	}
	for i, a := range os.Args {
		if (a == "-replay" || a == "--replay") && i+1 < len(os.Args) {
			ownReplay(os.Args[i+1])
		} else if strings.HasPrefix(a, "-replay=") {
			ownReplay(strings.TrimPrefix(a, "-replay="))
		}
	}
	hasProcs := false
	for _, a := range os.Args[1:] {
		hasProcs = hasProcs || a == "-procs" || a == "--procs" || strings.HasPrefix(a, "-procs=") || strings.HasPrefix(a, "--procs=")
	}
	if !hasProcs {
		os.Args = append(os.Args, "-procs", "8") // the explorer's default is one worker per CPU
	}
	vx.Main(vx.Config{
		Property: "C17",
		Level:    "model_checking",
		Rule: "matrix: every request of 5 methods x 5 EIO values x 4 transports x 4 sid kinds x b64 x j (1600) in 4 server states (6400 cases), each one real execution of Server.ServeHTTP on a fresh server under the controlled scheduler, " +
			"judged by a reference validator (faults present => 400 + one of their protocol codes, or 503 when closed; no callback; store unchanged; live session keeps its queued packet); " +
			"ids: every answer sequence over {same id as before, different} up to length 12 for crypto/rand, driving sequential handshakes until the answers are used up; " +
			"schedules (CHESS cost model unless stated): handshake || Close: all interleavings (happens-before pruned) and preemption bound 2 (thorough 3); poll on a live session || Close: preemption bound 2 (thorough: 3 and all interleavings); " +
			"handshake || Close with a live session, handshake || Close || poll, 2 handshakes || Close: delay bound 3 (thorough adds preemption bound 2, 1, 2 and delay bound 4 for the first); two concurrent handshakes with forced equal ids: preemption bound 2 (thorough 3). " +
			"distinct_nontrivial counts matrix cases with at least one fault, a closed server or a handshake, id sequences with at least one collision, and deviating schedules",
		Scenarios: scenarios,
		Budget: func(tier string) time.Duration {
			if tier == "thorough" {
				return 8 * time.Minute
			}
			return 60 * time.Second
		},
		Extra: extra,
		Assumptions: []string{
			"protocol codes as in the Engine.IO reference server and server_error.go: 0 transport unknown, 1 session id unknown, 2 bad handshake method, 3 bad request, 5 unsupported protocol version; several faults: any of their codes (no precedence fixed)",
			"a request with a sid and an unknown/absent transport may be answered with code 0 or 3; an unexpected method on a live polling session and a websocket handshake/upgrade without upgrade headers only have to leave every session intact",
			"in state 'fresh' the sid kinds 'live' and 'closed' are never-issued ids (there is no session yet): they count as unknown",
			"the 'closed' sid belongs to a session that was ended by the client's CLOSE packet (state live), by a transport error - an undecodable request body - (state session-closed) or by the server application's Close (state server-closed)",
			"a forced id collision models the state 2^24 ids later (only 24 bits of the sequence number survive in an id) together with equal random bytes",
			"racing Close is judged at quiescence before any heartbeat timer fires (a leaked polling session would otherwise be reaped by the ping timeout 45 s later; a websocket one never)",
			"the retry limit is the code's Base64IDMaxTry; a refusal needs at least that many collisions",
		},
	})
}
