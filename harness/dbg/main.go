package main

import (
	"fmt"
	"time"

	sio "github.com/karagenc/socket.io-go"
	"github.com/karagenc/socket.io-go/internal/vsched"
)

func a(*sio.Namespace) { fmt.Println("A ran") }

func main() {
	e := vsched.Run(vsched.Options{Horizon: time.Hour}, func(e *vsched.Exec) {
		srv := sio.NewServer(nil)
		srv.OnNewNamespace(a)
		srv.Of("/x1")
		vsched.Sleep(time.Second)
		fmt.Println("off")
		srv.OffNewNamespace(a)
		srv.Of("/x2")
		vsched.Sleep(time.Second)
	})
	fmt.Println(e.Panics, e.Steps)
}
