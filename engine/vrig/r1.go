// Package vrig holds the rigs (seams) shared by the harnesses; see /verif/DESIGN.md section 2.3.
package vrig

import (
	"fmt"
	"strings"
	"time"

	sio "github.com/karagenc/socket.io-go"
	eio "github.com/karagenc/socket.io-go/engine.io"
	eioparser "github.com/karagenc/socket.io-go/engine.io/parser"
	"github.com/karagenc/socket.io-go/internal/vsched"
)

// Frame is one Engine.IO message the server handed to the (fake) connection.
type Frame struct {
	Binary bool
	Data   string
	Batch  int // index of the Send call it came in
	At     time.Duration
}

// FakeEIO is rig R1: an eio.ServerSocket implemented by the harness. The harness is the protocol-level
// client: it feeds Socket.IO frames into the callbacks and reads what the server sends.
type FakeEIO struct {
	SID    string
	V      vsched.Var
	Frames []Frame
	Sends  int
	CB     *eio.Callbacks
	Conn   sio.VerifConn
	Closed int
	// CloseReason is what Close() reports back through OnClose (like the real socket does).
	CloseReason eio.Reason
	// SlowSend adds a scheduling point inside Send (a transport that takes its time).
	SlowSend bool
	// FrameByFrame: the packets of one Send go out one at a time with a scheduling point before each, as the
	// WebSocket / WebTransport transports write them (their Send takes the write lock per packet): two goroutines
	// that call Send at once interleave their packets.
	FrameByFrame bool
	e            *vsched.Exec
}

func (f *FakeEIO) ID() string                  { return f.SID }
func (f *FakeEIO) PingInterval() time.Duration { return 25 * time.Second }
func (f *FakeEIO) PingTimeout() time.Duration  { return 20 * time.Second }
func (f *FakeEIO) TransportName() string       { return "fake" }

func (f *FakeEIO) Send(packets ...*eioparser.Packet) {
	if f.FrameByFrame {
		batch := 0
		f.V.Do(func() { batch = f.Sends; f.Sends++ })
		for _, p := range packets {
			vsched.PointL("fake-eio-write-frame")
			p := p
			f.V.Do(func() {
				fr := Frame{Binary: p.IsBinary, Data: string(p.Data), Batch: batch}
				if vsched.E != nil {
					fr.At = vsched.E.Clock()
				}
				f.Frames = append(f.Frames, fr)
			})
		}
		return
	}
	if f.SlowSend {
		vsched.PointL("fake-eio-send")
	}
	f.V.Do(func() {
		for _, p := range packets {
			fr := Frame{Binary: p.IsBinary, Data: string(p.Data), Batch: f.Sends}
			if vsched.E != nil {
				fr.At = vsched.E.Clock()
			}
			f.Frames = append(f.Frames, fr)
		}
		f.Sends++
	})
}

// Close mimics eio's serverSocket.Close: once-only, reports ReasonForcedClose through OnClose.
func (f *FakeEIO) Close() {
	first := false
	f.V.Do(func() {
		f.Closed++
		first = f.Closed == 1
	})
	if first && f.CB != nil && f.CB.OnClose != nil {
		r := f.CloseReason
		if r == "" {
			r = eio.ReasonForcedClose
		}
		f.CB.OnClose(r, nil)
	}
}

// TransportClose is the peer / network ending the connection: OnClose with the given reason, once.
func (f *FakeEIO) TransportClose(reason eio.Reason) {
	first := false
	f.V.Do(func() {
		f.Closed++
		first = f.Closed == 1
	})
	if first {
		f.CB.OnClose(reason, nil)
	}
}

// Attach registers the fake connection with the server.
func (f *FakeEIO) Attach(srv *sio.Server) {
	f.CB, f.Conn = srv.VerifNewConn(f)
}

// NewFakeEIO creates and attaches a connection.
func NewFakeEIO(srv *sio.Server, sid string) *FakeEIO {
	f := &FakeEIO{SID: sid}
	f.Attach(srv)
	return f
}

// Msg builds a text message packet.
func Msg(s string) *eioparser.Packet {
	p, _ := eioparser.NewPacket(eioparser.PacketTypeMessage, false, []byte(s))
	return p
}

// Bin builds a binary message packet.
func Bin(b []byte) *eioparser.Packet {
	p, _ := eioparser.NewPacket(eioparser.PacketTypeMessage, true, b)
	return p
}

// In feeds text frames to the server, one OnPacket call per frame.
func (f *FakeEIO) In(frames ...string) {
	for _, s := range frames {
		f.CB.OnPacket(Msg(s))
	}
}

// InPackets feeds prepared packets in one OnPacket call (one polling payload / websocket burst).
func (f *FakeEIO) InPackets(ps ...*eioparser.Packet) { f.CB.OnPacket(ps...) }

// Texts returns the text frames received so far.
func (f *FakeEIO) Texts() []string {
	var out []string
	for _, fr := range f.Frames {
		if !fr.Binary {
			out = append(out, fr.Data)
		}
	}
	return out
}

// HasPrefix reports whether some text frame starts with prefix.
func (f *FakeEIO) HasPrefix(prefix string) bool {
	for _, fr := range f.Frames {
		if !fr.Binary && strings.HasPrefix(fr.Data, prefix) {
			return true
		}
	}
	return false
}

// AwaitFrame blocks the calling thread until a text frame with the prefix has been sent by the server.
func (f *FakeEIO) AwaitFrame(prefix string) {
	vsched.Await(func() bool { return f.HasPrefix(prefix) })
}

// AwaitFrames blocks until at least n frames were sent.
func (f *FakeEIO) AwaitFrames(n int) {
	vsched.Await(func() bool { return len(f.Frames) >= n })
}

// Settle lets every other thread run until nothing is enabled at the current virtual time, by
// sleeping for d of virtual time (the clock only moves at quiescence).
func Settle(d time.Duration) { vsched.Sleep(d) }

// ConnectNS sends CONNECT for a namespace ("/" -> "0", else "0/ns,") and waits for the reply.
func (f *FakeEIO) ConnectNS(ns string) {
	if ns == "/" || ns == "" {
		f.In("0")
		f.AwaitFrame("0{")
		return
	}
	f.In("0" + ns + ",")
	f.AwaitFrame("0" + ns + ",{")
}

func (f *FakeEIO) String() string {
	var b strings.Builder
	for _, fr := range f.Frames {
		if fr.Binary {
			fmt.Fprintf(&b, "[bin %x] ", fr.Data)
		} else {
			fmt.Fprintf(&b, "%s ", fr.Data)
		}
	}
	return b.String()
}
