package vrig

import (
	"errors"
	"fmt"
	"net/http"
	"time"

	"github.com/karagenc/socket.io-go/engine.io/parser"
	"github.com/karagenc/socket.io-go/engine.io/transport"
	"github.com/karagenc/socket.io-go/internal/vsched"
)

// Duplex is rig R4: a reliable ordered message pipe standing in for the byte transport of a
// WebSocket / WebTransport connection, with failure knobs. Its two ends implement
// eio.ClientTransport and eio.ServerTransport (named "webtransport", the candidate the real upgrade
// code accepts as a parameter), so the real probe -> pong -> NOOP -> UPGRADE -> upgradeTo /
// finishUpgradeTo -> Discard -> re-send logic runs unmodified.
type Duplex struct {
	V vsched.Var
	// knobs (set before use)
	RefuseHandshake bool
	// DropC2S / DropS2C: frames with these indices (0-based, per direction) vanish silently (stall).
	DropC2S, DropS2C map[int]bool
	// CutBeforeC2S / CutBeforeS2C: the pipe breaks when frame n of that direction is about to be sent (-1 = never).
	CutBeforeC2S, CutBeforeS2C int
	// AsyncWriteErrors: a failed write is reported by the read loop only (not from inside Send).
	AsyncWriteErrors bool
	// Latency: every frame is delivered this much (virtual time) after it was sent; order is kept.
	Latency time.Duration

	C *DuplexEnd // client end
	S *DuplexEnd // server end

	// OnClientHandshake is called from the client's Handshake (the harness starts the server half there).
	OnClientHandshake func()
	nC2S, nS2C        int
	broken            bool
}

type DuplexEnd struct {
	d         *Duplex
	server    bool
	cb        *transport.Callbacks
	inbox     []*parser.Packet
	inboxAt   []time.Duration // earliest delivery instant per inbox entry (virtual clock, Latency > 0 only)
	sig       chan struct{}
	closed    bool // Close() called (with callback)
	discarded bool
	done      bool // read loop ended
	Sent      []string
}

func NewDuplex(clientCB, serverCB *transport.Callbacks) *Duplex {
	d := &Duplex{CutBeforeC2S: -1, CutBeforeS2C: -1, DropC2S: map[int]bool{}, DropS2C: map[int]bool{}}
	d.C = &DuplexEnd{d: d, cb: clientCB, sig: make(chan struct{}, 1)}
	d.S = &DuplexEnd{d: d, server: true, cb: serverCB, sig: make(chan struct{}, 1)}
	return d
}

func (e *DuplexEnd) peer() *DuplexEnd {
	if e.server {
		return e.d.C
	}
	return e.d.S
}

func (e *DuplexEnd) Name() string { return "webtransport" }

func (e *DuplexEnd) wake() { vsched.Select(true, vsched.Send(e.sig)) }

// Send puts the packets on the wire towards the peer.
func (e *DuplexEnd) Send(packets ...*parser.Packet) {
	for _, p := range packets {
		deliver, brk := true, false
		e.d.V.Do(func() {
			if e.closed || e.discarded || e.d.broken {
				deliver = false
				return
			}
			n := e.d.nC2S
			drop, cut := e.d.DropC2S, e.d.CutBeforeC2S
			if e.server {
				n, drop, cut = e.d.nS2C, e.d.DropS2C, e.d.CutBeforeS2C
			}
			if cut >= 0 && n == cut {
				e.d.broken = true
				brk, deliver = true, false
				return
			}
			if e.server {
				e.d.nS2C++
			} else {
				e.d.nC2S++
			}
			if drop[n] {
				deliver = false
				return
			}
			e.Sent = append(e.Sent, fmt.Sprintf("%d:%s", p.Type, p.Data))
			e.peer().inbox = append(e.peer().inbox, p)
			if e.d.Latency > 0 {
				e.peer().inboxAt = append(e.peer().inboxAt, time.Duration(vsched.Now().UnixNano())+e.d.Latency)
			}
		})
		if brk {
			e.wake()
			e.peer().wake()
			// like the real WebSocket / WebTransport transports, whose Send closes the transport when a write
			// fails: the close is reported synchronously, on the sender's goroutine, from inside Send
			if !e.d.AsyncWriteErrors {
				e.fail(errors.New("duplex: write failed, connection lost"))
			}
			return
		}
		if deliver {
			e.peer().wake()
		}
	}
}

// loop is the read loop of one end: delivers packets one at a time, in order.
func (e *DuplexEnd) loop() {
	for {
		var p *parser.Packet
		var wait time.Duration
		stop, broken := false, false
		e.d.V.Do(func() {
			if e.closed || e.discarded {
				stop = true
				return
			}
			if len(e.inbox) > 0 {
				if len(e.inboxAt) > 0 {
					if d := e.inboxAt[0] - time.Duration(vsched.Now().UnixNano()); d > 0 {
						wait = d
						return
					}
					e.inboxAt = e.inboxAt[1:]
				}
				p = e.inbox[0]
				e.inbox = e.inbox[1:]
				return
			}
			if e.d.broken || e.peer().closed {
				stop, broken = true, true
			}
		})
		if stop {
			e.d.V.Do(func() { e.done = true })
			if broken {
				e.fail(errors.New("duplex: connection lost"))
			}
			return
		}
		if wait > 0 {
			vsched.Sleep(wait) // the frame is still in flight
			continue
		}
		if p == nil {
			vsched.RecvStmt(e.sig)
			continue
		}
		e.cb.OnPacket(p)
	}
}

func (e *DuplexEnd) fail(err error) {
	first := false
	e.d.V.Do(func() {
		first = !e.closed && !e.discarded
		e.closed = true
	})
	if first {
		e.cb.OnClose(e.Name(), err)
	}
}

// Close closes the transport and reports it (once).
func (e *DuplexEnd) Close() {
	first := false
	e.d.V.Do(func() {
		first = !e.closed && !e.discarded
		e.closed = true
	})
	e.wake()
	e.peer().wake()
	if first {
		e.cb.OnClose(e.Name(), nil)
	}
}

// Discard closes the transport without reporting.
func (e *DuplexEnd) Discard() {
	e.d.V.Do(func() { e.discarded = true })
	e.wake()
	e.peer().wake()
}

// ---- client side

func (e *DuplexEnd) Handshake() (*parser.HandshakeResponse, error) {
	if e.d.RefuseHandshake {
		return nil, errors.New("duplex: handshake refused")
	}
	if e.d.OnClientHandshake != nil {
		e.d.OnClientHandshake()
	}
	return nil, nil
}

func (e *DuplexEnd) Run() { e.loop() }

// ---- server side

type DuplexServerEnd struct{ *DuplexEnd }

func (e DuplexServerEnd) Handshake(handshakePacket *parser.Packet, w http.ResponseWriter, r *http.Request) (string, error) {
	return "", nil
}
func (e DuplexServerEnd) PostHandshake(handshakePacket *parser.Packet) { e.loop() }
func (e DuplexServerEnd) ServeHTTP(w http.ResponseWriter, r *http.Request) {
	w.WriteHeader(http.StatusBadRequest)
}
func (e DuplexServerEnd) QueuedPackets() []*parser.Packet { return nil }

// Server returns the server end as an eio.ServerTransport.
func (d *Duplex) Server() DuplexServerEnd { return DuplexServerEnd{d.S} }
