package vrig

import (
	"bytes"
	"errors"
	"io"
	"net/http"
	"net/http/httptest"
	"time"

	sio "github.com/karagenc/socket.io-go"
	"github.com/karagenc/socket.io-go/internal/vsched"
)

// Inproc is rig R3's link: an http.RoundTripper that calls a handler in-process. With
// http.Client.Timeout == 0 the whole request runs on the caller's (modelled) thread. It doubles as the
// fault injector.
type Inproc struct {
	H http.Handler
	V vsched.Var

	Requests int
	// Down: requests are refused at once (connection refused).
	Down bool
	// BlackHole: requests are never answered (the caller blocks forever).
	BlackHole bool
	// BlackHoleResponses: the server handles the request but the answer never arrives.
	BlackHoleResponses bool
	// OnRequest, if set, is called before each request is served (fault scripts).
	OnRequest func(n int, r *http.Request) (refuse bool)
	// Log of "METHOD query" lines.
	Log []string
	// Bodies of POST requests, in order.
	Posts []string
	// GetBodies are the bodies answered to GET requests, in order.
	GetBodies []string
	// RespLatency: the answer to a GET (long poll) reaches the client this much virtual time after the
	// server wrote it (packets in flight towards the client).
	RespLatency time.Duration
	never       chan struct{}
}

var ErrRefused = errors.New("inproc: connection refused")

func (t *Inproc) RoundTrip(r *http.Request) (*http.Response, error) {
	var n int
	var down, bh, bhr bool
	var body []byte
	if r.Body != nil {
		body, _ = io.ReadAll(r.Body)
		r.Body.Close()
		r.Body = io.NopCloser(bytes.NewReader(body))
	}
	t.V.Do(func() {
		t.Requests++
		n = t.Requests
		down, bh, bhr = t.Down, t.BlackHole, t.BlackHoleResponses
		t.Log = append(t.Log, r.Method+" "+r.URL.RawQuery)
		if r.Method == "POST" {
			t.Posts = append(t.Posts, string(body))
		}
		if t.never == nil {
			t.never = make(chan struct{})
		}
	})
	if t.OnRequest != nil && t.OnRequest(n, r) {
		return nil, ErrRefused
	}
	if down {
		return nil, ErrRefused
	}
	if bh {
		vsched.RecvStmt(t.never)
	}
	rec := httptest.NewRecorder()
	t.H.ServeHTTP(rec, r)
	// state may have changed while the request was parked in a long poll
	t.V.Do(func() { bhr = bhr || t.BlackHoleResponses || t.BlackHole })
	if bhr {
		vsched.RecvStmt(t.never)
	}
	res := rec.Result()
	if r.Method == "GET" {
		var lat time.Duration
		t.V.Do(func() { lat = t.RespLatency })
		if lat > 0 {
			vsched.Sleep(lat)
		}
		b, _ := io.ReadAll(res.Body)
		res.Body = io.NopCloser(bytes.NewReader(b))
		t.V.Do(func() { t.GetBodies = append(t.GetBodies, string(b)) })
	}
	return res, nil
}

// NewSioPair builds a real sio.Server and a real sio.Manager joined by an in-process polling link.
func NewSioPair(scfg *sio.ServerConfig, mcfg *sio.ManagerConfig) (*sio.Server, *sio.Manager, *Inproc) {
	if scfg == nil {
		scfg = &sio.ServerConfig{}
	}
	srv := sio.NewServer(scfg)
	link := &Inproc{H: srv}
	if mcfg == nil {
		mcfg = &sio.ManagerConfig{NoReconnection: true}
	}
	mcfg.EIO.Transports = []string{"polling"}
	mcfg.EIO.HTTPTransport = link
	m := sio.NewManager("http://inproc/socket.io/", mcfg)
	return srv, m, link
}

// NewManagerOn creates another manager on an existing link.
func NewManagerOn(link *Inproc, mcfg *sio.ManagerConfig) *sio.Manager {
	if mcfg == nil {
		mcfg = &sio.ManagerConfig{NoReconnection: true}
	}
	mcfg.EIO.Transports = []string{"polling"}
	mcfg.EIO.HTTPTransport = link
	return sio.NewManager("http://inproc/socket.io/", mcfg)
}

var _ = time.Second
