//go:build !race

package vsched

import "unsafe"

const RaceEnabled = false

func raceDisable()                    {}
func raceEnable()                     {}
func raceAcquireObj(p unsafe.Pointer) {}
func raceReleaseObj(p unsafe.Pointer) {}
