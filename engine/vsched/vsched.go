// Package vsched is the controlled scheduler ("Engine A" of /verif/DESIGN.md).
//
// It is injected into the repository as github.com/karagenc/socket.io-go/internal/vsched through a
// `go build -overlay`; the instrumenter rewrites every `go`, `select`, channel operation, `close`,
// `time.*` call and `internal/sync` primitive of the repository to the functions below.
//
// One real goroutine exists per modelled thread and exactly one of them runs at any moment. Every
// visible operation first parks with a pending-operation descriptor; the scheduler loop in Run
// decides who continues. All decisions that are not forced are recorded as choice points so that an
// explorer can enumerate them.
//
// With Native set (pass-through mode) every primitive delegates to the real Go runtime instead, so the
// same harness bodies can run free under the race detector.
package vsched

import (
	"fmt"
	"os"
	"reflect"
	"runtime"
	"sort"
	"strings"
	"sync"
	"time"
	"unsafe"
)

// Native switches the whole package to pass-through mode (real goroutines, locks, channels, time).
var Native bool

// NativeScale divides every duration in Native mode (virtual seconds become real milliseconds).
var NativeScale = time.Duration(1)

type opKind uint8

const (
	opStart opKind = iota
	opPoint
	opLock
	opRWAnnounce
	opRWLock
	opRLock
	opWait
	opBlocked
	opAwait
	opExit
)

var opNames = [...]string{"start", "point", "lock", "rwlock-announce", "rwlock", "rlock", "wg-wait", "chan-wait", "await", "exit"}

// Thread is one modelled goroutine.
type Thread struct {
	ID     int    // creation order within this execution (display only)
	Site   string // spawn site ("file.go:line" or a harness label)
	Parent *Thread
	path   []int32 // canonical identity: spawn indices from the root
	canon  uint64  // hash of path
	nkids  int32
	wake   chan struct{}
	exited chan struct{}
	phase1 chan struct{}
	wake2  chan struct{}
	kind   opKind
	mu     *Mutex
	rw     *RWMutex
	wg     *WaitGroup
	done   bool
	ready  bool
	selIdx int
	cond   func() bool
	label  string // what the thread is about to do (for traces)
	where  string // caller of the pending operation (only when tracing)
	opIdx  uint32
	hb     hbObj
	Panic  any
	Stack  string
	held   int // modelled mutexes currently held (for reports)
}

//go:norace
func (t *Thread) String() string { return fmt.Sprintf("T%d(%s)", t.ID, t.Site) }

// Done reports whether the thread has returned (or panicked).
//
//go:norace
func (t *Thread) Done() bool { return t.done }

// Pending describes the operation the thread is parked on.
//
//go:norace
func (t *Thread) Pending() string {
	s := opNames[t.kind]
	if t.label != "" {
		s += ":" + t.label
	}
	return s
}

type hbObj struct {
	h  uint64
	ex *Exec
}

type chState struct {
	hb      hbObj
	cap, n  int
	closed  bool
	recvq   []*waiter
	sendq   []*waiter
	timer   bool
	at      time.Duration
	fired   bool
	stopped bool
	fn      func() // AfterFunc
	period  time.Duration // > 0: a ticker (re-arms itself when it fires; a tick nobody took yet is dropped)
	seq     int
	keep    any // keeps the real channel alive so its address is not reused within an execution
}

type waiter struct {
	t    *Thread
	idx  int
	done *bool
}

// Choice is one recorded decision.
type Choice struct {
	Kind    byte // 't' thread, 's' select case, 'e' environment answer, 'c' clock/timer order
	N       int  // number of alternatives
	Picked  int
	AltCost uint8  // deviation cost of every alternative other than 0
	Sig     uint64 // signature of the alternatives (replay validation)
	State   [2]uint64
	Last    uint64
	Desc    string
	Alts    []string
}

// Options configure one execution.
type Options struct {
	// Horizon stops the execution when virtual time would pass it (0 = none).
	Horizon time.Duration
	// PreemptCost: if true only preemptions (switching away from an enabled thread) cost a deviation
	// (CHESS); otherwise every non-default choice does (delay bounding).
	PreemptOnly bool
	// EarlyTimers adds the choice "let the earliest timer fire although threads are runnable".
	EarlyTimers bool
	// MaxSteps aborts an execution as a harness error (0 = 2_000_000).
	MaxSteps int
	// Prefix of choices to replay; afterwards choice 0 is taken everywhere.
	Prefix []Pick
	// Prune is consulted at every choice point beyond the prefix; returning true aborts the execution
	// there (the state was already explored with at least this budget).
	Prune func(state [2]uint64, last uint64, devsUsed int) bool
	// Describe makes the scheduler record human-readable alternatives (slower).
	Describe bool
	// Trace receives one line per scheduling step when non-nil.
	Trace func(string)
}

// Pick is one replayed decision with the signature it must see.
type Pick struct {
	I   int
	Sig uint64
}

// Exec is one execution.
type Exec struct {
	opt          Options
	threads      []*Thread
	cur          *Thread
	yield        chan struct{}
	chans        chanTable
	timers       []*chState
	timerSeq     int
	now          time.Duration
	Trace        []Choice
	Steps        int
	tearing      bool
	OnQuiesce    func(e *Exec)
	Failure      string
	Panics       []string
	MaxThreads   int
	Pruned       bool
	stop         bool
	inCond       bool
	notExploring bool
	Diverged     string
	HarnessErr   string
	// MainDone: the body given to Run (thread 0) ran to its end. False when the horizon, a deadlock or a panic
	// ended the execution first: whatever the body wanted to judge after that point was never judged.
	MainDone    bool
	sig         [2]uint64
	devs        int
	mutexes     []*Mutex
	rwmutexes   []*RWMutex
	envSeq      int
	Quiescences int
	Deadlock    string
}

// E is the current execution (nil outside Run).
var E *Exec

var epoch = time.Date(2030, 1, 1, 0, 0, 0, 0, time.UTC)

//go:norace
func (e *Exec) Clock() time.Duration { return e.now }

//go:norace
func (e *Exec) Threads() []*Thread { return e.threads }

//go:norace
func (e *Exec) Deviations() int { return e.devs }

//go:norace
func (e *Exec) StateSig() [2]uint64 { return e.sig }

//go:norace
func Self() *Thread {
	if E == nil {
		return nil
	}
	return E.cur
}

//go:norace
func active() bool { return E != nil && !E.tearing }

// Fail records a harness-detected property failure and stops the execution at the next scheduling point.
//
//go:norace
func (e *Exec) Fail(format string, a ...any) {
	if e.Failure == "" {
		e.Failure = fmt.Sprintf(format, a...)
	}
}

//go:norace
func mix(a, b uint64) uint64 {
	x := a ^ (b + 0x9e3779b97f4a7c15 + (a << 6) + (a >> 2))
	x ^= x >> 33
	x *= 0xff51afd7ed558ccd
	x ^= x >> 33
	x *= 0xc4ceb9fe1a85ec53
	x ^= x >> 33
	return x
}

//go:norace
func mix2(h uint64) [2]uint64 { return [2]uint64{mix(h, 0x1234567), mix(h, 0x89abcdef0)} }

// touch records that the running thread performed one operation on the given objects.
//
//go:norace
func (e *Exec) touch(objs ...*hbObj) {
	t := e.cur
	t.opIdx++
	ev := mix(t.canon, uint64(t.opIdx))
	objs = append(objs, &t.hb)
	for _, o := range objs {
		if o.ex != e {
			o.ex = e
			o.h = 0
		} else {
			m := mix2(o.h)
			e.sig[0] -= m[0]
			e.sig[1] -= m[1]
		}
		o.h = mix(o.h, ev)
		if o.h == 0 {
			o.h = 1
		}
		m := mix2(o.h)
		e.sig[0] += m[0]
		e.sig[1] += m[1]
	}
}

// ---------------------------------------------------------------- threads

// Go starts a modelled thread.
//
//go:norace
func Go(site string, f func()) {
	if Native {
		go f()
		return
	}
	e := E
	if e == nil {
		panic("vsched.Go outside Run")
	}
	if e.tearing {
		return
	}
	p := e.cur
	if p == nil {
		panic("vsched.Go from the scheduler")
	}
	Point() // thread creation is a visible operation of the parent
	path := append(append([]int32{}, p.path...), p.nkids)
	p.nkids++
	e.touch()
	e.spawn(p, site, path, f)
}

// GoQuiet starts a modelled thread without making the creation a scheduling point of the parent
// (harness set-up: the start order of the spawned threads is explored anyway).
//
//go:norace
func GoQuiet(site string, f func()) {
	if Native {
		go f()
		return
	}
	e := E
	p := e.cur
	path := append(append([]int32{}, p.path...), p.nkids)
	p.nkids++
	e.touch()
	e.spawn(p, site, path, f)
}

//go:norace
func (e *Exec) spawn(p *Thread, site string, path []int32, f func()) *Thread {
	t := &Thread{ID: len(e.threads), Site: site, Parent: p, wake: make(chan struct{}), exited: make(chan struct{}), kind: opStart, path: path}
	h := uint64(0x51ed)
	for _, x := range t.path {
		h = mix(h, uint64(x)+7)
	}
	t.canon = h
	e.threads = append(e.threads, t)
	if len(e.threads) > e.MaxThreads {
		e.MaxThreads = len(e.threads)
	}
	raceReleaseObj(unsafe.Pointer(t))
	go threadMain(e, t, f)
	return t
}

//go:norace
func threadMain(e *Exec, t *Thread, f func()) {
	defer close(t.exited)
	raceDisable()
	<-t.wake
	raceEnable()
	if !e.tearing {
		raceAcquireObj(unsafe.Pointer(t))
		func() {
			defer func() {
				if r := recover(); r != nil {
					if e.tearing {
						return
					}
					t.Panic = r
					buf := make([]byte, 8192)
					buf = buf[:runtime.Stack(buf, false)]
					t.Stack = string(buf)
					e.Panics = append(e.Panics, fmt.Sprintf("%v: panic: %v", t, r))
				}
			}()
			f()
			if t.ID == 0 {
				e.MainDone = true // the body given to Run returned (was not cut off by the horizon, a deadlock or a panic)
			}
		}()
	}
	t.done = true
	t.kind = opExit
	raceReleaseObj(unsafe.Pointer(&tearToken))
	if !e.tearing {
		raceDisable()
		e.yield <- struct{}{}
		raceEnable()
	}
}

var tearToken int

// unwind is what a parked thread does when the execution is being torn down: first publish its past
// (phase 1), then, when woken again, run its deferred calls alone (phase 2).
//
//go:norace
func unwind(t *Thread) {
	raceReleaseObj(unsafe.Pointer(&tearToken))
	raceDisable()
	t.phase1 <- struct{}{}
	<-t.wake2
	raceEnable()
	raceAcquireObj(unsafe.Pointer(&tearToken))
	runtime.Goexit()
}

//go:norace
func park(t *Thread) {
	e := E
	if e != nil && e.inCond {
		panic("vsched: a scheduler primitive (lock, channel, ...) was used inside an Await condition; conditions must be pure")
	}
	if e == nil || e.tearing {
		runtime.Goexit()
	}
	if e.opt.Trace != nil {
		t.where = caller()
	}
	raceDisable()
	e.yield <- struct{}{}
	<-t.wake
	raceEnable()
	if e.tearing {
		unwind(t)
	}
}

// caller names the first frame outside this package (tracing only).
//
//go:norace
func caller() string {
	pc := make([]uintptr, 12)
	n := runtime.Callers(3, pc)
	fr := runtime.CallersFrames(pc[:n])
	for {
		f, more := fr.Next()
		if !strings.Contains(f.Function, "/internal/vsched.") {
			fn := f.Function
			if i := strings.LastIndex(fn, "/"); i >= 0 {
				fn = fn[i+1:]
			}
			return " @" + fn
		}
		if !more {
			return ""
		}
	}
}

// Point is a bare scheduling point.
//
//go:norace
func Point() {
	if Native || !active() {
		return
	}
	t := E.cur
	t.kind = opPoint
	park(t)
}

// PointL is a scheduling point with a label shown in traces.
//
//go:norace
func PointL(label string) {
	if Native || !active() {
		return
	}
	t := E.cur
	t.kind = opPoint
	t.label = label
	park(t)
	t.label = ""
}

// Yield is what a polling loop must call: a scheduling point.
//
//go:norace
func Yield() { Point() }

// Var is a harness-visible shared object: every access through Note is a scheduling point and a
// dependency, which keeps harness observations data-race-free and visible to happens-before pruning.
type Var struct {
	hb hbObj
	mu sync.Mutex
}

// Note marks an access of the running thread to v (call it before reading or writing harness state
// that other threads also touch).
//
//go:norace
func (v *Var) Note() {
	if Native {
		return
	}
	if !active() {
		return
	}
	Point()
	E.touch(&v.hb)
}

// Do runs f as one atomic access to v.
//
//go:norace
func (v *Var) Do(f func()) {
	if Native {
		v.mu.Lock()
		defer v.mu.Unlock()
		f()
		return
	}
	v.Note()
	raceAcquireObj(unsafe.Pointer(v))
	f()
	raceReleaseObj(unsafe.Pointer(v))
	// what a harness publishes through a Var is visible to a thread that later wakes from an Await
	// on it (a real program would hand the object over through a channel or a mutex)
	raceReleaseObj(unsafe.Pointer(&awaitToken))
}

var awaitToken int

// Await blocks the calling thread until cond holds. cond must be a pure function of state that only
// changes at scheduling points.
//
//go:norace
func Await(cond func() bool) {
	if Native {
		for !cond() {
			time.Sleep(200 * time.Microsecond)
		}
		return
	}
	if !active() {
		return
	}
	t := E.cur
	t.kind = opAwait
	t.cond = cond
	park(t)
	t.cond = nil
	E.touch()
	raceAcquireObj(unsafe.Pointer(&awaitToken))
}

// Choose is an environment answer in [0,n); 0 is the default.
//
//go:norace
func Choose(n int, label string) int {
	if Native || !active() || n <= 1 {
		return 0
	}
	e := E
	Point()
	var alts []string
	if e.opt.Describe {
		for i := 0; i < n; i++ {
			alts = append(alts, fmt.Sprintf("%s=%d", label, i))
		}
	}
	p := e.choose('e', n, 1, mix(uint64(n), strhash(label)), alts)
	e.touch()
	e.sig[0] += mix(uint64(p), uint64(e.cur.opIdx)^e.cur.canon)
	return p
}

//go:norace
func strhash(s string) uint64 {
	h := uint64(14695981039346656037)
	for i := 0; i < len(s); i++ {
		h ^= uint64(s[i])
		h *= 1099511628211
	}
	return h
}

// ---------------------------------------------------------------- Mutex

type Mutex struct {
	real   sync.Mutex
	hb     hbObj
	locked bool
	owner  *Thread
}

//go:norace
func (m *Mutex) fresh() {
	if m.hb.ex != E {
		m.locked = false
		m.owner = nil
		m.hb.ex = E
		m.hb.h = 0
		E.mutexes = append(E.mutexes, m)
	}
}

//go:norace
func (m *Mutex) Lock() {
	if Native {
		m.real.Lock()
		return
	}
	if !active() {
		return
	}
	m.fresh()
	t := E.cur
	t.kind = opLock
	t.mu = m
	park(t)
	t.mu = nil
	if m.locked {
		panic("vsched: internal error: lock granted while held")
	}
	m.locked = true
	m.owner = t
	t.held++
	E.touch(&m.hb)
	raceAcquireObj(unsafe.Pointer(m))
}

//go:norace
func (m *Mutex) Unlock() {
	if Native {
		m.real.Unlock()
		return
	}
	if !active() {
		return
	}
	m.fresh()
	Point()
	if !m.locked {
		panic("sync: unlock of unlocked mutex")
	}
	raceReleaseObj(unsafe.Pointer(m))
	if m.owner != nil {
		m.owner.held--
	}
	m.locked = false
	m.owner = nil
	E.touch(&m.hb)
}

//go:norace
func (m *Mutex) TryLock() bool {
	if Native {
		return m.real.TryLock()
	}
	if !active() {
		return true
	}
	m.fresh()
	Point()
	E.touch(&m.hb)
	if m.locked {
		return false
	}
	m.locked = true
	m.owner = E.cur
	E.cur.held++
	raceAcquireObj(unsafe.Pointer(m))
	return true
}

// Held reports whether the mutex is held and by whom (harness oracles).
//
//go:norace
func (m *Mutex) Held() (bool, *Thread) {
	if m.hb.ex != E {
		return false, nil
	}
	return m.locked, m.owner
}

// ---------------------------------------------------------------- RWMutex (writer preference as in Go)

type RWMutex struct {
	real      sync.RWMutex
	hb        hbObj
	announced bool // a writer holds the internal writer lock (blocks new readers)
	writing   bool
	readers   int
	wowner    *Thread // announcing / writing thread
	readersBy []*Thread
}

//go:norace
func (m *RWMutex) announcer() []*Thread {
	if m.wowner != nil {
		return []*Thread{m.wowner}
	}
	return nil
}

//go:norace
func (m *RWMutex) dropReader(t *Thread) {
	for i, r := range m.readersBy {
		if r == t {
			m.readersBy = append(m.readersBy[:i:i], m.readersBy[i+1:]...)
			return
		}
	}
	if len(m.readersBy) > 0 { // RUnlock from another goroutine than the RLock: legal in Go
		m.readersBy = m.readersBy[1:]
	}
}

//go:norace
func (m *RWMutex) fresh() {
	if m.hb.ex != E {
		m.announced, m.writing, m.readers, m.wowner, m.readersBy = false, false, 0, nil, nil
		m.hb.ex = E
		m.hb.h = 0
		E.rwmutexes = append(E.rwmutexes, m)
	}
}

//go:norace
func (m *RWMutex) Lock() {
	if Native {
		m.real.Lock()
		return
	}
	if !active() {
		return
	}
	m.fresh()
	t := E.cur
	t.kind = opRWAnnounce
	t.rw = m
	park(t)
	m.announced = true
	m.wowner = t
	E.touch(&m.hb)
	t.kind = opRWLock
	park(t)
	t.rw = nil
	m.writing = true
	m.wowner = t
	t.held++
	E.touch(&m.hb)
	raceAcquireObj(unsafe.Pointer(m))
}

//go:norace
func (m *RWMutex) Unlock() {
	if Native {
		m.real.Unlock()
		return
	}
	if !active() {
		return
	}
	m.fresh()
	Point()
	if !m.writing {
		panic("sync: Unlock of unlocked RWMutex")
	}
	raceReleaseObj(unsafe.Pointer(m))
	if m.wowner != nil {
		m.wowner.held--
	}
	m.writing, m.announced, m.wowner = false, false, nil
	E.touch(&m.hb)
}

//go:norace
func (m *RWMutex) RLock() {
	if Native {
		m.real.RLock()
		return
	}
	if !active() {
		return
	}
	m.fresh()
	t := E.cur
	t.kind = opRLock
	t.rw = m
	park(t)
	t.rw = nil
	m.readers++
	m.readersBy = append(m.readersBy, t)
	t.held++
	E.touch(&m.hb)
	raceAcquireObj(unsafe.Pointer(m))
}

//go:norace
func (m *RWMutex) RUnlock() {
	if Native {
		m.real.RUnlock()
		return
	}
	if !active() {
		return
	}
	m.fresh()
	Point()
	if m.readers <= 0 {
		panic("sync: RUnlock of unlocked RWMutex")
	}
	raceReleaseObj(unsafe.Pointer(m))
	m.readers--
	m.dropReader(E.cur)
	E.cur.held--
	E.touch(&m.hb)
}

//go:norace
func (m *RWMutex) TryLock() bool {
	if Native {
		return m.real.TryLock()
	}
	if !active() {
		return true
	}
	m.fresh()
	Point()
	E.touch(&m.hb)
	if m.announced || m.writing || m.readers > 0 {
		return false
	}
	m.announced, m.writing, m.wowner = true, true, E.cur
	E.cur.held++
	return true
}

//go:norace
func (m *RWMutex) TryRLock() bool {
	if Native {
		return m.real.TryRLock()
	}
	if !active() {
		return true
	}
	m.fresh()
	Point()
	E.touch(&m.hb)
	if m.announced || m.writing {
		return false
	}
	m.readers++
	m.readersBy = append(m.readersBy, E.cur)
	E.cur.held++
	return true
}

//go:norace
func (m *RWMutex) RLocker() sync.Locker { return (*rlocker)(m) }

type rlocker RWMutex

//go:norace
func (r *rlocker) Lock() { (*RWMutex)(r).RLock() }

//go:norace
func (r *rlocker) Unlock() { (*RWMutex)(r).RUnlock() }

// State reports (writer held or announced, readers) for harness oracles.
//
//go:norace
func (m *RWMutex) State() (bool, int) {
	if m.hb.ex != E {
		return false, 0
	}
	return m.writing || m.announced, m.readers
}

// ---------------------------------------------------------------- Once

type Once struct {
	real sync.Once
	ex   *Exec
	done bool
	m    Mutex
}

//go:norace
func (o *Once) Do(f func()) {
	if Native {
		o.real.Do(f)
		return
	}
	if !active() {
		return
	}
	if o.ex != E {
		o.ex = E
		o.done = false
	}
	o.m.fresh()
	Point()
	E.touch(&o.m.hb)
	if o.done {
		raceAcquireObj(unsafe.Pointer(o))
		return
	}
	o.m.Lock()
	defer o.m.Unlock()
	if !o.done {
		defer o.finish()
		f()
	} else {
		raceAcquireObj(unsafe.Pointer(o))
	}
}

// ---------------------------------------------------------------- WaitGroup

type WaitGroup struct {
	real sync.WaitGroup
	hb   hbObj
	n    int
}

//go:norace
func (w *WaitGroup) fresh() {
	if w.hb.ex != E {
		w.hb.ex = E
		w.hb.h = 0
		w.n = 0
	}
}

//go:norace
func (w *WaitGroup) Add(d int) {
	if Native {
		w.real.Add(d)
		return
	}
	if !active() {
		return
	}
	w.fresh()
	Point()
	raceReleaseObj(unsafe.Pointer(w))
	w.n += d
	E.touch(&w.hb)
	if w.n < 0 {
		panic("sync: negative WaitGroup counter")
	}
}

//go:norace
func (w *WaitGroup) Done() { w.Add(-1) }

//go:norace
func (w *WaitGroup) Wait() {
	if Native {
		w.real.Wait()
		return
	}
	if !active() {
		return
	}
	w.fresh()
	t := E.cur
	t.kind = opWait
	t.wg = w
	park(t)
	t.wg = nil
	E.touch(&w.hb)
	raceAcquireObj(unsafe.Pointer(w))
}

// ---------------------------------------------------------------- atomics

// AtomicValue replaces sync/atomic.Value: same semantics, each access is a scheduling point.
type AtomicValue struct {
	hb hbObj
	mu sync.Mutex
	v  any
}

//go:norace
func (a *AtomicValue) fresh() {
	if a.hb.ex != E {
		a.hb.ex = E
		a.hb.h = 0
	}
}

//go:norace
func (a *AtomicValue) Load() any {
	if !Native && active() {
		a.fresh()
		Point()
		E.touch(&a.hb)
	}
	a.mu.Lock()
	defer a.mu.Unlock()
	return a.v
}

//go:norace
func (a *AtomicValue) Store(v any) {
	if v == nil {
		panic("sync/atomic: store of nil value into Value")
	}
	if !Native && active() {
		a.fresh()
		Point()
		E.touch(&a.hb)
	}
	a.mu.Lock()
	defer a.mu.Unlock()
	if a.v != nil && reflect.TypeOf(a.v) != reflect.TypeOf(v) {
		panic("sync/atomic: store of inconsistently typed value into Value")
	}
	a.v = v
}

//go:norace
func (a *AtomicValue) Swap(v any) any {
	if !Native && active() {
		a.fresh()
		Point()
		E.touch(&a.hb)
	}
	a.mu.Lock()
	defer a.mu.Unlock()
	old := a.v
	a.v = v
	return old
}

//go:norace
func (a *AtomicValue) CompareAndSwap(old, new any) bool {
	if !Native && active() {
		a.fresh()
		Point()
		E.touch(&a.hb)
	}
	a.mu.Lock()
	defer a.mu.Unlock()
	if a.v != old {
		return false
	}
	a.v = new
	return true
}

// ---------------------------------------------------------------- channels

//go:norace
func (e *Exec) chanOf(ch any) *chState {
	v := reflect.ValueOf(ch)
	if v.Kind() != reflect.Chan {
		panic(fmt.Sprintf("vsched: not a channel: %T", ch))
	}
	if v.IsNil() {
		return nil
	}
	p := v.Pointer()
	s := e.chans.get(p)
	if s == nil {
		s = &chState{cap: v.Cap(), keep: ch}
		s.hb.ex = e
		e.chans.put(p, s)
	}
	return s
}

// Case is one communication clause of a select.
type Case struct {
	send bool
	ch   any
	st   *chState
}

//go:norace
func Recv(ch any) Case { return Case{ch: ch} }

//go:norace
func Send(ch any) Case { return Case{ch: ch, send: true} }

//go:norace
func complete(w *waiter) {
	*w.done = true
	w.t.ready = true
	w.t.selIdx = w.idx
}

//go:norace
func firstLive(q []*waiter) (*waiter, []*waiter) {
	for len(q) > 0 {
		w := q[0]
		q = q[1:]
		if !*w.done {
			return w, q
		}
	}
	return nil, q
}

//go:norace
func hasLive(q []*waiter) bool {
	for _, w := range q {
		if !*w.done {
			return true
		}
	}
	return false
}

// Close closes a channel.
//
//go:norace
func Close(ch any) {
	if Native {
		reflect.ValueOf(ch).Close()
		return
	}
	if !active() {
		return
	}
	Point()
	s := E.chanOf(ch)
	if s == nil {
		panic("close of nil channel")
	}
	if s.closed {
		panic("close of closed channel")
	}
	raceReleaseObj(unsafe.Pointer(s))
	s.closed = true
	E.touch(&s.hb)
	for _, w := range s.recvq {
		if !*w.done {
			complete(w)
		}
	}
	s.recvq = nil
	if hasLive(s.sendq) {
		// the blocked senders would panic in real Go
		for _, w := range s.sendq {
			if !*w.done {
				complete(w)
			}
		}
	}
}

// Select models a select statement over signal-only channels; it returns the index (among the
// cases passed, in order) of the clause that proceeded, or -1 for default.
//
//go:norace
func Select(hasDefault bool, cases ...Case) int {
	if Native {
		return nativeSelect(hasDefault, cases)
	}
	if E == nil || E.tearing {
		if hasDefault {
			return -1
		}
		if E != nil {
			runtime.Goexit()
		}
		panic("vsched.Select outside Run")
	}
	e := E
	t := e.cur
	Point() // arrive
	var objs []*hbObj
	for i := range cases {
		cases[i].st = e.chanOf(cases[i].ch)
		if cases[i].st != nil {
			objs = append(objs, &cases[i].st.hb)
		}
	}
	var ready []int
	for i, c := range cases {
		if c.st == nil {
			continue // nil channel: never ready
		}
		if c.send {
			if c.st.closed {
				panic("send on closed channel")
			}
			if c.st.n < c.st.cap || hasLive(c.st.recvq) {
				ready = append(ready, i)
			}
		} else if c.st.n > 0 || c.st.closed || hasLive(c.st.sendq) {
			ready = append(ready, i)
		}
	}
	if len(ready) > 0 {
		pick := ready[0]
		if len(ready) > 1 {
			var alts []string
			if e.opt.Describe {
				for _, r := range ready {
					alts = append(alts, fmt.Sprintf("case#%d", r))
				}
			}
			sg := uint64(len(cases))
			for _, r := range ready {
				sg = mix(sg, uint64(r))
			}
			pick = ready[e.choose('s', len(ready), 1, sg, alts)]
		}
		c := cases[pick]
		e.touch(&c.st.hb)
		if c.send {
			var w *waiter
			w, c.st.recvq = firstLive(c.st.recvq)
			raceReleaseObj(unsafe.Pointer(c.st))
			if w != nil {
				complete(w)
			} else {
				c.st.n++
			}
		} else if c.st.n > 0 {
			c.st.n--
			raceAcquireObj(unsafe.Pointer(c.st))
			// a blocked sender can now move into the buffer
			if w, q := firstLive(c.st.sendq); w != nil {
				c.st.sendq = q
				complete(w)
				c.st.n++
			}
		} else if hasLive(c.st.sendq) {
			var w *waiter
			w, c.st.sendq = firstLive(c.st.sendq)
			complete(w)
			raceAcquireObj(unsafe.Pointer(c.st))
		} else { // closed
			raceAcquireObj(unsafe.Pointer(c.st))
		}
		return pick
	}
	if hasDefault {
		e.touch(objs...)
		return -1
	}
	e.touch(objs...)
	done := new(bool)
	for i, c := range cases {
		if c.st == nil {
			continue
		}
		w := &waiter{t: t, idx: i, done: done}
		if c.send {
			c.st.sendq = append(c.st.sendq, w)
			raceReleaseObj(unsafe.Pointer(c.st))
		} else {
			c.st.recvq = append(c.st.recvq, w)
		}
	}
	t.kind = opBlocked
	t.ready = false
	park(t)
	idx := t.selIdx
	c := cases[idx]
	if c.send && c.st.closed {
		panic("send on closed channel")
	}
	e.touch(&c.st.hb)
	if !c.send {
		raceAcquireObj(unsafe.Pointer(c.st))
	}
	return idx
}

// SendStmt models `ch <- v` for signal-only channels.
//
//go:norace
func SendStmt(ch any) { Select(false, Send(ch)) }

// RecvStmt models `<-ch`; ok is false when the channel is closed and drained.
//
//go:norace
func RecvStmt(ch any) (ok bool) {
	if Native {
		_, ok := reflect.ValueOf(ch).Recv()
		return ok
	}
	Select(false, Recv(ch))
	if !active() {
		return false
	}
	s := E.chanOf(ch)
	return !(s.closed && s.n == 0)
}

// ---------------------------------------------------------------- time

//go:norace
func Now() time.Time {
	if Native || E == nil {
		return time.Now()
	}
	return epoch.Add(E.now)
}

//go:norace
func Since(t time.Time) time.Duration { return Now().Sub(t) }

//go:norace
func Until(t time.Time) time.Duration { return t.Sub(Now()) }

//go:norace
func (e *Exec) newTimer(d time.Duration, ch any, fn func()) *chState {
	s := &chState{cap: 1, timer: true, at: e.now + d, fn: fn, keep: ch}
	if d < 0 {
		s.at = e.now
	}
	s.hb.ex = e
	e.timerSeq++
	s.seq = e.timerSeq
	if ch != nil {
		e.chans.put(reflect.ValueOf(ch).Pointer(), s)
	}
	e.timers = append(e.timers, s)
	return s
}

// After is time.After on the virtual clock.
//
//go:norace
func After(d time.Duration) <-chan time.Time {
	if Native {
		return time.After(d / NativeScale)
	}
	ch := make(chan time.Time, 1)
	if !active() {
		return ch
	}
	E.newTimer(d, ch, nil)
	E.touch()
	return ch
}

// Sleep is time.Sleep on the virtual clock.
//
//go:norace
func Sleep(d time.Duration) {
	if Native {
		time.Sleep(d / NativeScale)
		return
	}
	if !active() {
		if E != nil {
			runtime.Goexit()
		}
		return
	}
	t := E.cur
	t.label = "sleep"
	Select(false, Recv(After(d)))
	t.label = ""
}

// Timer mirrors the part of time.Timer the harnesses use.
type Timer struct {
	C    <-chan time.Time
	st   *chState
	real *time.Timer
}

//go:norace
func AfterFunc(d time.Duration, f func()) *Timer {
	if Native {
		return &Timer{real: time.AfterFunc(d/NativeScale, f)}
	}
	if !active() {
		return &Timer{}
	}
	return &Timer{st: E.newTimer(d, nil, f)}
}

// NewTimer is time.NewTimer on the virtual clock.
//
//go:norace
func NewTimer(d time.Duration) *Timer {
	if Native {
		rt := time.NewTimer(d / NativeScale)
		return &Timer{C: rt.C, real: rt}
	}
	ch := make(chan time.Time, 1)
	if !active() {
		return &Timer{C: ch}
	}
	st := E.newTimer(d, ch, nil)
	E.touch()
	return &Timer{C: ch, st: st}
}

// Reset re-arms the timer (time.Timer.Reset with Go 1.23 semantics: a stale value is discarded).
//
//go:norace
func (t *Timer) Reset(d time.Duration) bool {
	if t.real != nil {
		return t.real.Reset(d / NativeScale)
	}
	if t.st == nil || !active() {
		return false
	}
	Point()
	e := E
	s := t.st
	was := !s.fired && !s.stopped
	if !was && !e.hasTimer(s) {
		e.timers = append(e.timers, s)
	}
	s.fired, s.stopped = false, false
	if s.fn == nil {
		s.n = 0
	}
	if d < 0 {
		d = 0
	}
	s.at = e.now + d
	e.timerSeq++
	s.seq = e.timerSeq
	e.touch(&s.hb)
	return was
}

//go:norace
func (t *Timer) Stop() bool {
	if t.real != nil {
		return t.real.Stop()
	}
	if t.st == nil || !active() {
		return false
	}
	Point()
	was := !t.st.fired && !t.st.stopped
	t.st.stopped = true
	E.touch(&t.st.hb)
	return was
}

// Ticker is time.Ticker on the virtual clock.
type Ticker struct {
	C    <-chan time.Time
	st   *chState
	real *time.Ticker
}

// NewTicker is time.NewTicker on the virtual clock.
//
//go:norace
func NewTicker(d time.Duration) *Ticker {
	if d <= 0 {
		panic("non-positive interval for NewTicker")
	}
	if Native {
		rt := time.NewTicker(d / NativeScale)
		return &Ticker{C: rt.C, real: rt}
	}
	ch := make(chan time.Time, 1)
	if !active() {
		return &Ticker{C: ch}
	}
	st := E.newTimer(d, ch, nil)
	st.period = d
	E.touch()
	return &Ticker{C: ch, st: st}
}

// Tick is time.Tick.
//
//go:norace
func Tick(d time.Duration) <-chan time.Time {
	if d <= 0 {
		return nil
	}
	return NewTicker(d).C
}

//go:norace
func (t *Ticker) Stop() {
	if t.real != nil {
		t.real.Stop()
		return
	}
	if t.st == nil || !active() {
		return
	}
	Point()
	t.st.stopped = true
	E.touch(&t.st.hb)
}

// Reset stops the ticker and sets its period; the next tick arrives after the new period.
//
//go:norace
func (t *Ticker) Reset(d time.Duration) {
	if d <= 0 {
		panic("non-positive interval for Ticker.Reset")
	}
	if t.real != nil {
		t.real.Reset(d / NativeScale)
		return
	}
	if t.st == nil || !active() {
		return
	}
	Point()
	e := E
	s := t.st
	if s.stopped && !e.hasTimer(s) {
		e.timers = append(e.timers, s)
	}
	s.stopped, s.fired = false, false
	s.period = d
	s.at = e.now + d
	e.timerSeq++
	s.seq = e.timerSeq
	e.touch(&s.hb)
}

// ---------------------------------------------------------------- scheduler

//go:norace
func (e *Exec) enabled(t *Thread) bool {
	if t.done {
		return false
	}
	switch t.kind {
	case opStart, opPoint:
		return true
	case opLock:
		return !t.mu.locked
	case opRWAnnounce:
		return !t.rw.announced
	case opRWLock:
		return t.rw.readers == 0
	case opRLock:
		return !t.rw.announced
	case opWait:
		return t.wg.n == 0
	case opBlocked:
		return t.ready
	case opAwait:
		e.inCond = true
		ok := t.cond()
		e.inCond = false
		return ok
	}
	return false
}

//go:norace
func lessPath(a, b []int32) bool {
	for i := 0; i < len(a) && i < len(b); i++ {
		if a[i] != b[i] {
			return a[i] < b[i]
		}
	}
	return len(a) < len(b)
}

type divergence struct{ msg string }

// SetExploring switches the recording of choice points off and on. While off, every decision takes
// its default and is not offered to the explorer: a harness uses this for its set-up phase (e.g. the
// connection handshake), so that the deviation budget is spent on the phase under study. The state
// reached is the one the default schedule produces.
//
//go:norace
func SetExploring(on bool) {
	if Native || E == nil {
		return
	}
	E.notExploring = !on
}

//go:norace
func (e *Exec) choose(kind byte, n int, altCost uint8, sig uint64, alts []string) int {
	if e.notExploring {
		return 0
	}
	i := len(e.Trace)
	pick := 0
	sig = mix(sig, uint64(kind)<<8|uint64(n))
	if i < len(e.opt.Prefix) {
		p := e.opt.Prefix[i]
		pick = p.I
		if pick >= n || (p.Sig != 0 && p.Sig != sig) {
			e.Diverged = fmt.Sprintf("replay divergence at choice %d (kind %c): recorded pick %d sig %x, now %d alternatives sig %x %v", i, kind, p.I, p.Sig, n, sig, alts)
			e.HarnessErr = e.Diverged
			e.stop = true
			pick = 0
		}
	} else if e.opt.Prune != nil && kind == 't' {
		last := uint64(0)
		if e.cur != nil {
			last = e.cur.canon
		}
		if e.opt.Prune(e.fullSig(), last, e.devs) {
			e.Pruned = true
			e.stop = true
			return 0
		}
	}
	c := Choice{Kind: kind, N: n, Picked: pick, AltCost: altCost, Sig: sig, Alts: alts}
	if e.cur != nil {
		c.Last = e.cur.canon
	}
	c.State = e.fullSig()
	e.Trace = append(e.Trace, c)
	if pick != 0 {
		e.devs += int(altCost)
	}
	return pick
}

//go:norace
func (e *Exec) fullSig() [2]uint64 {
	s := e.sig
	s[0] += mix(uint64(e.now), 77)
	s[1] += mix(uint64(e.now), 99)
	return s
}

//go:norace
func (e *Exec) hasTimer(s *chState) bool {
	for _, x := range e.timers {
		if x == s {
			return true
		}
	}
	return false
}

// pendingTimers returns live timers sorted by (deadline, creation).
//
//go:norace
func (e *Exec) pendingTimers() []*chState {
	live := e.timers[:0]
	for _, s := range e.timers {
		if !s.fired && !s.stopped {
			live = append(live, s)
		}
	}
	e.timers = live
	out := append([]*chState{}, live...)
	sort.SliceStable(out, func(i, j int) bool {
		if out[i].at != out[j].at {
			return out[i].at < out[j].at
		}
		return out[i].seq < out[j].seq
	})
	return out
}

//go:norace
func (e *Exec) fire(s *chState) {
	s.fired = true
	if s.at > e.now {
		e.now = s.at
	}
	if s.period > 0 {
		// a ticker: hand the tick to a waiting receiver, or leave one in the channel (capacity 1: a tick that
		// finds the previous one still there is dropped), and arm the next one
		var w *waiter
		w, s.recvq = firstLive(s.recvq)
		if w != nil {
			complete(w)
		} else {
			s.n = 1
		}
		s.fired = false
		s.at += s.period
		e.timerSeq++
		s.seq = e.timerSeq
		return
	}
	if s.fn != nil {
		e.spawn(nil, "timer", []int32{-1, int32(s.seq)}, s.fn)
		return
	}
	var w *waiter
	w, s.recvq = firstLive(s.recvq)
	if w != nil {
		complete(w)
	} else {
		s.n = 1
	}
}

// advance moves the clock to the earliest deadline and fires what is due; equal deadlines fire in
// creation order (their waiters become enabled together, so the wake-up order is still a thread choice).
//
//go:norace
func (e *Exec) advance() bool {
	ts := e.pendingTimers()
	if len(ts) == 0 {
		return false
	}
	at := ts[0].at
	if e.opt.Horizon > 0 && at > e.opt.Horizon {
		return false
	}
	for _, s := range ts {
		if s.at <= at {
			e.fire(s)
		}
	}
	return true
}

const stallLimit = 30 * time.Second

//go:norace
func (e *Exec) resume(t *Thread) {
	e.cur = t
	e.Steps++
	progress++
	// every scheduling step is an event of its thread: without this, two consecutive choice points
	// around a bare Point would carry the same state signature and the second would be taken for
	// an already explored state
	e.touch()
	if e.opt.Trace != nil {
		e.opt.Trace(fmt.Sprintf("t=%v step=%d run %v %s%s", e.now, e.Steps, t, t.Pending(), t.where))
	}
	raceDisable()
	t.wake <- struct{}{}
	<-e.yield
	raceEnable()
}

// progress is bumped at every scheduling step; the watchdog aborts the process as a harness error
// (never a verdict) when it stands still, i.e. when a thread blocks or spins outside the scheduler.
var progress uint64
var watchdogOnce sync.Once
var inRun bool

//go:norace
func watchdog() {
	last, since := progress, time.Now()
	for {
		time.Sleep(2 * time.Second)
		if progress != last || !inRun {
			last, since = progress, time.Now()
			continue
		}
		if time.Since(since) > stallLimit {
			buf := make([]byte, 1<<20)
			buf = buf[:runtime.Stack(buf, true)]
			fmt.Fprintf(os.Stderr, "vsched: HARNESS ERROR: no scheduling point reached for %v (a thread blocks or spins outside the scheduler)\n%s\n", stallLimit, buf)
			os.Exit(3)
		}
	}
}

var runStartHooks []func()

// OnRunStart registers a function that runs at the start of every execution, before thread 0: shims
// use it to reset package-level state of the code under test (sequence counters), so that every
// execution starts from the same state.
//
//go:norace
func OnRunStart(f func()) { runStartHooks = append(runStartHooks, f) }

// Run executes body as thread 0 under the scheduler and returns when the execution is over.
//
//go:norace
func Run(opt Options, body func(e *Exec)) *Exec {
	if Native {
		panic("vsched.Run in Native mode")
	}
	if opt.MaxSteps == 0 {
		opt.MaxSteps = 2_000_000
	}
	e := &Exec{opt: opt, yield: make(chan struct{}), Trace: make([]Choice, 0, 128)}
	E = e
	watchdogOnce.Do(func() { go watchdog() })
	for _, h := range runStartHooks {
		h()
	}
	inRun = true
	defer func() { inRun = false }()
	e.spawn(nil, "main", nil, func() { body(e) })
	var last *Thread
	var en []*Thread
	for {
		en = en[:0]
		lastEnabled := last != nil && e.enabled(last)
		if lastEnabled {
			en = append(en, last)
		}
		n0 := len(en)
		for _, t := range e.threads {
			if t != last && e.enabled(t) {
				en = append(en, t)
			}
		}
		rest := en[n0:]
		if len(rest) > 1 {
			sort.Slice(rest, func(i, j int) bool { return lessPath(rest[i].path, rest[j].path) })
		}
		if len(en) == 0 {
			e.cur = nil
			e.Quiescences++
			if e.OnQuiesce != nil {
				e.OnQuiesce(e)
			}
			if e.Failure != "" {
				break
			}
			if e.advance() {
				continue
			}
			break
		}
		nAlt := len(en)
		early := e.opt.EarlyTimers && len(e.pendingTimers()) > 0
		if early {
			nAlt++
		}
		pick := 0
		if nAlt > 1 {
			altCost := uint8(0)
			if lastEnabled || !e.opt.PreemptOnly || early {
				altCost = 1
			}
			sg := uint64(0)
			for _, t := range en {
				sg = mix(sg, t.canon^uint64(t.kind)<<56)
			}
			if early {
				sg = mix(sg, 0xea71)
			}
			var alts []string
			if e.opt.Describe {
				for _, t := range en {
					alts = append(alts, t.String()+" "+t.Pending())
				}
				if early {
					alts = append(alts, "fire-earliest-timer")
				}
			}
			e.cur = last
			pick = e.choose('t', nAlt, altCost, sg, alts)
			if e.stop || e.Failure != "" {
				break
			}
		}
		if early && pick == nAlt-1 {
			ts := e.pendingTimers()
			e.fire(ts[0])
			e.sig[0] += mix(uint64(ts[0].seq), 0xf1e)
			continue
		}
		t := en[pick]
		last = t
		e.resume(t)
		if e.Failure != "" || e.stop {
			break
		}
		if e.Steps >= e.opt.MaxSteps {
			e.HarnessErr = fmt.Sprintf("step cap %d reached (livelock or runaway harness?)", e.opt.MaxSteps)
			break
		}
	}
	if e.Failure == "" && !e.Pruned && e.HarnessErr == "" {
		e.Deadlock = e.findDeadlock()
	}
	if !e.MainDone && !e.Pruned && !e.stop && e.Failure == "" && e.HarnessErr == "" && e.Deadlock == "" && len(e.Panics) == 0 {
		// Thread 0 (the harness body) is still waiting for something when the execution ends: the horizon
		// came first, or nothing can wake it. What it wanted to judge after that point was never judged; a
		// harness must not pass silently because of that.
		e.HarnessErr = fmt.Sprintf("the body given to Run did not run to its end (clock %v, horizon %v; thread 0: %s)", e.now, e.opt.Horizon, e.threads[0].Pending())
	}
	e.tearing = true
	raceDisable()
	// Phase 1: every live thread publishes its past and parks again; phase 2: they unwind one at a
	// time (deferred calls of the code under test never run in parallel with each other).
	var live []*Thread
	for _, t := range e.threads {
		if !t.done {
			if t.kind == opStart {
				close(t.wake) // never ran: threadMain sees tearing and returns
				e.waitExit(t)
				continue
			}
			t.phase1 = make(chan struct{})
			t.wake2 = make(chan struct{})
			live = append(live, t)
			close(t.wake)
			e.waitChan(t, t.phase1)
		}
	}
	for _, t := range live {
		close(t.wake2)
		e.waitExit(t)
	}
	raceEnable()
	// everything the threads did happens before what the caller does next (final checks)
	raceAcquireObj(unsafe.Pointer(&tearToken))
	E = nil
	return e
}

//go:norace
func (e *Exec) waitChan(t *Thread, c chan struct{}) {
	select { // the watchdog aborts the process if this never happens
	case <-c:
	case <-t.exited:
	}
}

//go:norace
func (e *Exec) waitExit(t *Thread) { e.waitChan(t, t.exited) }

// findDeadlock reports threads that can never continue: waiting for a lock whose holder has exited
// or (transitively) waits for them; and, when no timer is pending at all, every thread parked in a
// lock or WaitGroup operation.
//
//go:norace
func (e *Exec) findDeadlock() string {
	var stuck []string
	noTimers := len(e.pendingTimers()) == 0
	for _, t := range e.threads {
		if t.done {
			continue
		}
		switch t.kind {
		case opLock, opRWAnnounce, opRWLock, opRLock, opWait:
		default:
			continue
		}
		if e.enabled(t) {
			continue
		}
		// follow holder chains
		seen := map[*Thread]bool{t: true}
		work := holdersOf(t)
		dead := false
		for len(work) > 0 && !dead {
			h := work[0]
			work = work[1:]
			if h == nil {
				continue
			}
			if h.done || h == t {
				dead = true
				break
			}
			if seen[h] {
				continue
			}
			seen[h] = true
			work = append(work, holdersOf(h)...)
		}
		if dead || noTimers {
			stuck = append(stuck, fmt.Sprintf("%v blocked forever in %s", t, t.Pending()))
		}
	}
	return strings.Join(stuck, "; ")
}

// HeldLocks lists modelled mutexes that are held right now (call from a final check).
//
//go:norace
func (e *Exec) HeldLocks() []string {
	var out []string
	for _, m := range e.mutexes {
		if m.locked {
			out = append(out, fmt.Sprintf("Mutex held by %v (exited=%v)", m.owner, m.owner != nil && m.owner.done))
		}
	}
	for _, m := range e.rwmutexes {
		if m.writing || m.readers > 0 {
			out = append(out, fmt.Sprintf("RWMutex held (writer=%v owner=%v readers=%d)", m.writing, m.wowner, m.readers))
		}
	}
	return out
}

// Picks converts a recorded trace into a replayable prefix.
//
//go:norace
func Picks(tr []Choice) []Pick {
	p := make([]Pick, len(tr))
	for i, c := range tr {
		p[i] = Pick{I: c.Picked, Sig: c.Sig}
	}
	return p
}

// ---------------------------------------------------------------- environment answers

// SortedKeys returns the keys of m in sorted order (strings and integers only; the instrumenter
// rejects other key types).
//
//go:norace
func SortedKeys[M ~map[K]V, K comparable, V any](m M) []K {
	keys := make([]K, 0, len(m))
	for k := range m {
		keys = append(keys, k)
	}
	sort.Slice(keys, func(i, j int) bool { return lessAny(keys[i], keys[j]) })
	return keys
}

//go:norace
func lessAny(a, b any) bool {
	va, vb := reflect.ValueOf(a), reflect.ValueOf(b)
	switch va.Kind() {
	case reflect.String:
		return va.String() < vb.String()
	case reflect.Int, reflect.Int8, reflect.Int16, reflect.Int32, reflect.Int64:
		return va.Int() < vb.Int()
	case reflect.Uint, reflect.Uint8, reflect.Uint16, reflect.Uint32, reflect.Uint64, reflect.Uintptr:
		return va.Uint() < vb.Uint()
	}
	return fmt.Sprint(a) < fmt.Sprint(b)
}

// EnvFloat64Script, when non-nil, answers math/rand.Float64 calls (harness-scripted).
var EnvFloat64Script func() float64

// EnvFloat64 replaces math/rand.Float64: a scripted answer, else a per-execution deterministic sequence.
//
//go:norace
func EnvFloat64() float64 {
	if EnvFloat64Script != nil {
		return EnvFloat64Script()
	}
	if E == nil {
		return 0.5
	}
	E.envSeq++
	return float64(mix(uint64(E.envSeq), 0xf10a7)>>11) / float64(1<<53)
}

// EnvRandScript, when non-nil, answers crypto/rand.Read calls.
var EnvRandScript func(b []byte)

// EnvRandRead replaces crypto/rand.Read: scripted, else a per-execution deterministic byte stream.
//
//go:norace
func EnvRandRead(b []byte) (int, error) {
	if EnvRandScript != nil {
		EnvRandScript(b)
		return len(b), nil
	}
	seq := uint64(0)
	if E != nil {
		E.envSeq++
		seq = uint64(E.envSeq)
	}
	for i := range b {
		b[i] = byte(mix(seq, uint64(i)+0xb17e5))
	}
	return len(b), nil
}

// chanTable maps channel addresses to their modelled state. It is a hand-written open-addressing
// table rather than a Go map because the runtime's map functions are race-instrumented even when
// called from //go:norace code, and the scheduler's own bookkeeping must stay invisible to TSan.
type chanTable struct {
	keys []uintptr
	vals []*chState
	n    int
}

//go:norace
func (t *chanTable) slot(k uintptr) int {
	mask := uintptr(len(t.keys) - 1)
	i := (k >> 4) * 0x9e3779b97f4a7c15 >> 7 & mask
	for t.keys[i] != 0 && t.keys[i] != k {
		i = (i + 1) & mask
	}
	return int(i)
}

//go:norace
func (t *chanTable) get(k uintptr) *chState {
	if len(t.keys) == 0 {
		return nil
	}
	return t.vals[t.slot(k)]
}

//go:norace
func (t *chanTable) put(k uintptr, v *chState) {
	if t.n*2 >= len(t.keys) {
		ok, ov := t.keys, t.vals
		size := 64
		if len(ok) > 0 {
			size = len(ok) * 2
		}
		t.keys, t.vals, t.n = make([]uintptr, size), make([]*chState, size), 0
		for i, kk := range ok {
			if kk != 0 {
				t.put(kk, ov[i])
			}
		}
	}
	i := t.slot(k)
	if t.keys[i] == 0 {
		t.n++
	}
	t.keys[i], t.vals[i] = k, v
}

//go:norace
func holdersOf(t *Thread) []*Thread {
	switch t.kind {
	case opLock:
		if t.mu.locked {
			return []*Thread{t.mu.owner}
		}
	case opRWAnnounce, opRLock:
		if t.rw.announced && t.rw.wowner != nil {
			return []*Thread{t.rw.wowner}
		}
		if t.rw.announced {
			return t.rw.announcer()
		}
	case opRWLock:
		return t.rw.readersBy
	}
	return nil
}

//go:norace
func (o *Once) finish() {
	raceReleaseObj(unsafe.Pointer(o))
	o.done = true
}
