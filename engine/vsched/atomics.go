package vsched

import (
	"sync"
	"sync/atomic"
	"unsafe"
)

// Typed atomics (sync/atomic.Bool, Int32, Int64, Uint32, Uint64, Pointer[T]) and the function forms
// (atomic.AddInt32(&x, 1), ...): the same semantics, each access is a scheduling point that touches the
// object's happens-before chain. The real sync/atomic operation is kept underneath, so that a -race build
// still sees the edge an atomic access publishes.

type atomicCore struct {
	hb hbObj
	mu sync.Mutex // only for the race detector's happens-before edge (RMW operations are sequentially consistent)
}

//go:norace
func (a *atomicCore) point() {
	if !Native && active() {
		if a.hb.ex != E {
			a.hb.ex = E
			a.hb.h = 0
		}
		Point()
		E.touch(&a.hb)
	}
	a.mu.Lock()
	a.mu.Unlock()
}

// AtomicBool replaces sync/atomic.Bool.
type AtomicBool struct {
	c atomicCore
	v atomic.Bool
}

//go:norace
func (a *AtomicBool) Load() bool { a.c.point(); return a.v.Load() }

//go:norace
func (a *AtomicBool) Store(v bool) { a.c.point(); a.v.Store(v) }

//go:norace
func (a *AtomicBool) Swap(v bool) bool { a.c.point(); return a.v.Swap(v) }

//go:norace
func (a *AtomicBool) CompareAndSwap(old, new bool) bool {
	a.c.point()
	return a.v.CompareAndSwap(old, new)
}

// AtomicInt32 replaces sync/atomic.Int32.
type AtomicInt32 struct {
	c atomicCore
	v atomic.Int32
}

//go:norace
func (a *AtomicInt32) Load() int32 { a.c.point(); return a.v.Load() }

//go:norace
func (a *AtomicInt32) Store(v int32) { a.c.point(); a.v.Store(v) }

//go:norace
func (a *AtomicInt32) Add(d int32) int32 { a.c.point(); return a.v.Add(d) }

//go:norace
func (a *AtomicInt32) Swap(v int32) int32 { a.c.point(); return a.v.Swap(v) }

//go:norace
func (a *AtomicInt32) CompareAndSwap(old, new int32) bool {
	a.c.point()
	return a.v.CompareAndSwap(old, new)
}

// AtomicInt64 replaces sync/atomic.Int64.
type AtomicInt64 struct {
	c atomicCore
	v atomic.Int64
}

//go:norace
func (a *AtomicInt64) Load() int64 { a.c.point(); return a.v.Load() }

//go:norace
func (a *AtomicInt64) Store(v int64) { a.c.point(); a.v.Store(v) }

//go:norace
func (a *AtomicInt64) Add(d int64) int64 { a.c.point(); return a.v.Add(d) }

//go:norace
func (a *AtomicInt64) Swap(v int64) int64 { a.c.point(); return a.v.Swap(v) }

//go:norace
func (a *AtomicInt64) CompareAndSwap(old, new int64) bool {
	a.c.point()
	return a.v.CompareAndSwap(old, new)
}

// AtomicUint32 replaces sync/atomic.Uint32.
type AtomicUint32 struct {
	c atomicCore
	v atomic.Uint32
}

//go:norace
func (a *AtomicUint32) Load() uint32 { a.c.point(); return a.v.Load() }

//go:norace
func (a *AtomicUint32) Store(v uint32) { a.c.point(); a.v.Store(v) }

//go:norace
func (a *AtomicUint32) Add(d uint32) uint32 { a.c.point(); return a.v.Add(d) }

//go:norace
func (a *AtomicUint32) Swap(v uint32) uint32 { a.c.point(); return a.v.Swap(v) }

//go:norace
func (a *AtomicUint32) CompareAndSwap(old, new uint32) bool {
	a.c.point()
	return a.v.CompareAndSwap(old, new)
}

// AtomicUint64 replaces sync/atomic.Uint64.
type AtomicUint64 struct {
	c atomicCore
	v atomic.Uint64
}

//go:norace
func (a *AtomicUint64) Load() uint64 { a.c.point(); return a.v.Load() }

//go:norace
func (a *AtomicUint64) Store(v uint64) { a.c.point(); a.v.Store(v) }

//go:norace
func (a *AtomicUint64) Add(d uint64) uint64 { a.c.point(); return a.v.Add(d) }

//go:norace
func (a *AtomicUint64) Swap(v uint64) uint64 { a.c.point(); return a.v.Swap(v) }

//go:norace
func (a *AtomicUint64) CompareAndSwap(old, new uint64) bool {
	a.c.point()
	return a.v.CompareAndSwap(old, new)
}

// AtomicPointer replaces sync/atomic.Pointer[T].
type AtomicPointer[T any] struct {
	c atomicCore
	v atomic.Pointer[T]
}

//go:norace
func (a *AtomicPointer[T]) Load() *T { a.c.point(); return a.v.Load() }

//go:norace
func (a *AtomicPointer[T]) Store(v *T) { a.c.point(); a.v.Store(v) }

//go:norace
func (a *AtomicPointer[T]) Swap(v *T) *T { a.c.point(); return a.v.Swap(v) }

//go:norace
func (a *AtomicPointer[T]) CompareAndSwap(old, new *T) bool {
	a.c.point()
	return a.v.CompareAndSwap(old, new)
}

// ---- function forms on plain variables: the happens-before object is found by the variable's address

//go:norace
func atomicPointAt(p unsafe.Pointer) {
	if Native || !active() {
		return
	}
	e := E
	k := uintptr(p)
	s := e.chans.get(k)
	if s == nil {
		s = &chState{}
		s.hb.ex = e
		e.chans.put(k, s)
	}
	Point()
	e.touch(&s.hb)
}

//go:norace
func AtomicLoadInt32(p *int32) int32 { atomicPointAt(unsafe.Pointer(p)); return atomic.LoadInt32(p) }

//go:norace
func AtomicStoreInt32(p *int32, v int32) { atomicPointAt(unsafe.Pointer(p)); atomic.StoreInt32(p, v) }

//go:norace
func AtomicAddInt32(p *int32, d int32) int32 {
	atomicPointAt(unsafe.Pointer(p))
	return atomic.AddInt32(p, d)
}

//go:norace
func AtomicSwapInt32(p *int32, v int32) int32 {
	atomicPointAt(unsafe.Pointer(p))
	return atomic.SwapInt32(p, v)
}

//go:norace
func AtomicCompareAndSwapInt32(p *int32, old, new int32) bool {
	atomicPointAt(unsafe.Pointer(p))
	return atomic.CompareAndSwapInt32(p, old, new)
}

//go:norace
func AtomicLoadInt64(p *int64) int64 { atomicPointAt(unsafe.Pointer(p)); return atomic.LoadInt64(p) }

//go:norace
func AtomicStoreInt64(p *int64, v int64) { atomicPointAt(unsafe.Pointer(p)); atomic.StoreInt64(p, v) }

//go:norace
func AtomicAddInt64(p *int64, d int64) int64 {
	atomicPointAt(unsafe.Pointer(p))
	return atomic.AddInt64(p, d)
}

//go:norace
func AtomicSwapInt64(p *int64, v int64) int64 {
	atomicPointAt(unsafe.Pointer(p))
	return atomic.SwapInt64(p, v)
}

//go:norace
func AtomicCompareAndSwapInt64(p *int64, old, new int64) bool {
	atomicPointAt(unsafe.Pointer(p))
	return atomic.CompareAndSwapInt64(p, old, new)
}

//go:norace
func AtomicLoadUint32(p *uint32) uint32 {
	atomicPointAt(unsafe.Pointer(p))
	return atomic.LoadUint32(p)
}

//go:norace
func AtomicStoreUint32(p *uint32, v uint32) {
	atomicPointAt(unsafe.Pointer(p))
	atomic.StoreUint32(p, v)
}

//go:norace
func AtomicAddUint32(p *uint32, d uint32) uint32 {
	atomicPointAt(unsafe.Pointer(p))
	return atomic.AddUint32(p, d)
}

//go:norace
func AtomicSwapUint32(p *uint32, v uint32) uint32 {
	atomicPointAt(unsafe.Pointer(p))
	return atomic.SwapUint32(p, v)
}

//go:norace
func AtomicCompareAndSwapUint32(p *uint32, old, new uint32) bool {
	atomicPointAt(unsafe.Pointer(p))
	return atomic.CompareAndSwapUint32(p, old, new)
}

//go:norace
func AtomicLoadUint64(p *uint64) uint64 {
	atomicPointAt(unsafe.Pointer(p))
	return atomic.LoadUint64(p)
}

//go:norace
func AtomicStoreUint64(p *uint64, v uint64) {
	atomicPointAt(unsafe.Pointer(p))
	atomic.StoreUint64(p, v)
}

//go:norace
func AtomicAddUint64(p *uint64, d uint64) uint64 {
	atomicPointAt(unsafe.Pointer(p))
	return atomic.AddUint64(p, d)
}

//go:norace
func AtomicSwapUint64(p *uint64, v uint64) uint64 {
	atomicPointAt(unsafe.Pointer(p))
	return atomic.SwapUint64(p, v)
}

//go:norace
func AtomicCompareAndSwapUint64(p *uint64, old, new uint64) bool {
	atomicPointAt(unsafe.Pointer(p))
	return atomic.CompareAndSwapUint64(p, old, new)
}
