package vsched

import "reflect"

func nativeSelect(hasDefault bool, cases []Case) int {
	sc := make([]reflect.SelectCase, 0, len(cases)+1)
	for _, c := range cases {
		if c.send {
			v := reflect.ValueOf(c.ch)
			sc = append(sc, reflect.SelectCase{Dir: reflect.SelectSend, Chan: v, Send: reflect.Zero(v.Type().Elem())})
		} else {
			sc = append(sc, reflect.SelectCase{Dir: reflect.SelectRecv, Chan: reflect.ValueOf(c.ch)})
		}
	}
	if hasDefault {
		sc = append(sc, reflect.SelectCase{Dir: reflect.SelectDefault})
	}
	i, _, _ := reflect.Select(sc)
	if hasDefault && i == len(cases) {
		return -1
	}
	return i
}
