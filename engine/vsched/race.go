//go:build race

package vsched

import (
	"runtime"
	"unsafe"
)

const RaceEnabled = true

func raceDisable()                    { runtime.RaceDisable() }
func raceEnable()                     { runtime.RaceEnable() }
func raceAcquireObj(p unsafe.Pointer) { runtime.RaceAcquire(p) }
func raceReleaseObj(p unsafe.Pointer) { runtime.RaceReleaseMerge(p) }
