module verif/engine

go 1.22
