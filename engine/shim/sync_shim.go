//go:build !sio_deadlock

package sync

import (
	"sync"

	"github.com/karagenc/socket.io-go/internal/vsched"
)

type (
	Mutex     = vsched.Mutex
	RWMutex   = vsched.RWMutex
	Once      = vsched.Once
	WaitGroup = vsched.WaitGroup
	Locker    = sync.Locker
	Map       = sync.Map
	Cond      = sync.Cond
	Pool      = sync.Pool
)

var OnceFunc = sync.OnceFunc
