// Package vexplore is the stateless explorer on top of vsched: iterative deviation-bounded depth-first
// search with happens-before state caching, replay validation, sharding over worker processes, and the
// evidence / known-findings plumbing shared by all checks.
package vexplore

import (
	"fmt"
	"os"
	"sort"
	"strconv"
	"strings"
	"time"

	"github.com/karagenc/socket.io-go/internal/vsched"
)

// showOutcomes (VERIF_SHOW_OUTCOMES=<file>) appends every distinct outcome of a scenario to the file the first
// time a shard sees it (a diagnostic: which behaviours did the exploration actually produce?).
var showOutcomes = os.Getenv("VERIF_SHOW_OUTCOMES") != ""

// dumpTraces (VERIF_DUMP_TRACES=<file>) appends one block per execution: its outcome and every deviation taken
// (position, pick, the described alternatives). Only for diagnosing a small scenario.
var dumpTraces = os.Getenv("VERIF_DUMP_TRACES")

// Violation is one property failure observed in one execution (or one enumerated case).
type Violation struct {
	Key string `json:"key"` // stable identity of the failing input / call site / history shape
	Msg string `json:"msg"`
}

// Result is what a scenario's final check returns.
type Result struct {
	Outcome    string // canonical description of what was observed (distinct outcomes are counted)
	Violations []Violation
}

func (r *Result) Violate(key, format string, a ...any) {
	r.Violations = append(r.Violations, Violation{Key: key, Msg: fmt.Sprintf(format, a...)})
}

// Scenario is one closed harness.
type Scenario struct {
	Name string
	// Body runs as thread 0. It builds fresh state, spawns threads and returns the final check, which
	// the explorer calls after the execution is over (no thread is running then).
	Body func(e *vsched.Exec) func() Result
	// Horizon in virtual time (0 = none).
	Horizon time.Duration
	// PreemptOnly selects the CHESS cost model (only preemptions count); default is delay bounding.
	PreemptOnly bool
	EarlyTimers bool
	// Bound is the largest deviation bound to explore; Unbounded explores every interleaving
	// (terminates thanks to state caching).
	Bound     int
	Unbounded bool
	// NoCache disables happens-before state caching (for harnesses that communicate outside vsched).
	NoCache bool
	// Shards > 1 splits the subtrees of the root execution over that many work items.
	Shards   int
	MaxSteps int
	// AllowPanic: uncaught panics on modelled threads are not reported by the explorer itself
	// (the scenario's own check judges them through e.Panics).
	AllowPanic bool
	// AllowDeadlock likewise for threads blocked forever on locks.
	AllowDeadlock bool
	// AllowHeldLocks: do not report mutexes still held by exited threads.
	AllowHeldLocks bool
}

// Stats of one explored scenario (or shard).
type Stats struct {
	Scenario       string         `json:"scenario"`
	Shard          int            `json:"shard"`
	Execs          int            `json:"execs"`
	Pruned         int            `json:"pruned"`
	Steps          int            `json:"steps"`
	States         int            `json:"states"`
	MaxSteps       int            `json:"max_steps"`
	MaxThreads     int            `json:"max_threads"`
	MaxChoices     int            `json:"max_choices"`
	DeviatedExecs  int            `json:"deviated_execs"`
	BoundCompleted int            `json:"bound_completed"` // -1: none; 1<<30: unbounded
	Exhaustive     bool           `json:"exhaustive"`
	CapHit         string         `json:"cap_hit,omitempty"`
	FromLevel      int            `json:"from_level,omitempty"` // this item explored only the bound levels from here on
	CacheFull      bool           `json:"cache_full,omitempty"` // the happens-before cache reached its size limit (less pruning, same coverage)
	Outcomes       map[string]int `json:"outcomes"`
	Found          []Found        `json:"found,omitempty"`
	HarnessErr     string         `json:"harness_err,omitempty"`
	WallS          float64        `json:"wall_s"`
	Sample         []string       `json:"sample,omitempty"`
}

// Found is a violation together with the schedule that produced it.
type Found struct {
	Violation
	Scenario string        `json:"scenario"`
	Picks    []vsched.Pick `json:"picks"`
	Devs     int           `json:"deviations"`
	Count    int           `json:"count"`
	Schedule []string      `json:"schedule,omitempty"`
	Replayed bool          `json:"replayed_identically"`
}

const Infinite = 1 << 30

// maxCacheEntries bounds the happens-before cache of one exploration (one scenario shard in one worker
// process): about 60 bytes per entry, so 6M entries stay below 0.5 GB. VERIF_CACHE_MAX overrides it.
var maxCacheEntries = func() int {
	if v, err := strconv.Atoi(os.Getenv("VERIF_CACHE_MAX")); err == nil && v > 0 {
		return v
	}
	return 6_000_000
}()

type cacheKey struct {
	s    [2]uint64
	last uint64
}

type explorer struct {
	sc       *Scenario
	st       *Stats
	bound    int
	cache    map[cacheKey]int32
	deadline time.Time
	shard    int
	nshards  int
	rootAlt  int
	found    map[string]*Found
	stopped  bool
}

func (x *explorer) options(prefix []vsched.Pick) vsched.Options {
	o := vsched.Options{Horizon: x.sc.Horizon, PreemptOnly: x.sc.PreemptOnly, EarlyTimers: x.sc.EarlyTimers, Prefix: prefix, MaxSteps: x.sc.MaxSteps}
	if dumpTraces != "" {
		o.Describe = true
	}
	if !x.sc.NoCache {
		o.Prune = func(s [2]uint64, last uint64, devs int) bool {
			k := cacheKey{s, last}
			rem := int32(Infinite)
			if x.bound < Infinite {
				rem = int32(x.bound - devs)
			}
			old, ok := x.cache[k]
			if ok && old >= rem {
				return true
			}
			// The cache only saves work, it never decides anything: once it is full (memory), states are
			// no longer added (entries already there keep pruning and are still raised).
			if ok || len(x.cache) < maxCacheEntries {
				x.cache[k] = rem
			} else {
				x.st.CacheFull = true
			}
			return false
		}
	}
	return o
}

// runOnce executes the scenario with the given prefix and evaluates its check.
func runOnce(sc *Scenario, o vsched.Options) (*vsched.Exec, Result) {
	var final func() Result
	t0 := time.Now()
	e := vsched.Run(o, func(e *vsched.Exec) { final = sc.Body(e) })
	if os.Getenv("VERIF_SLOWLOG") != "" && time.Since(t0) > 200*time.Millisecond {
		fmt.Fprintf(os.Stderr, "SLOW %s: %v wall, %d steps, %d choices, pruned=%v clock=%v picks=%v\n", sc.Name, time.Since(t0), e.Steps, len(e.Trace), e.Pruned, e.Clock(), deviationsOf(e))
	}
	var r Result
	if e.Pruned || e.HarnessErr != "" {
		return e, r
	}
	if final == nil {
		if e.Deadlock != "" && !sc.AllowDeadlock {
			// thread 0 (set-up code calling the API) is itself stuck on a lock: a deadlock in the code under test
			r.Violate("deadlock:"+stripIDs(e.Deadlock), "deadlock during the scenario's set-up: %s", e.Deadlock)
			r.Violations = append(r.Violations, raceViolations()...)
			return e, r
		}
		// the body (thread 0) never returned: the harness is stuck, nothing was judged
		e.HarnessErr = "scenario body did not run to its end (thread 0 blocked forever: " + e.Threads()[0].Pending() + ")"
		return e, r
	}
	r = final()
	if e.Failure != "" {
		r.Violate("fail:"+firstWords(e.Failure, 6), "%s", e.Failure)
	}
	r.Violations = append(r.Violations, raceViolations()...)
	if !sc.AllowPanic {
		for i, p := range e.Panics {
			_ = i
			r.Violate("panic:"+panicKey(p), "uncaught panic on a modelled thread (kills the process in production): %s", p)
		}
	}
	if !sc.AllowDeadlock && e.Deadlock != "" {
		r.Violate("deadlock:"+stripIDs(e.Deadlock), "deadlock: %s", e.Deadlock)
	}
	if !sc.AllowHeldLocks {
		for _, h := range e.HeldLocks() {
			if strings.Contains(h, "exited=true") {
				r.Violate("lock-held-by-exited-thread:"+stripIDs(h), "%s", h)
			}
		}
	}
	return e, r
}

func firstWords(s string, n int) string {
	f := strings.Fields(s)
	if len(f) > n {
		f = f[:n]
	}
	return strings.Join(f, " ")
}

// stripIDs removes execution-specific thread numbers ("T12(") from a message so it can serve as a key.
func stripIDs(s string) string {
	var b strings.Builder
	for i := 0; i < len(s); i++ {
		if s[i] == 'T' && i+1 < len(s) && s[i+1] >= '0' && s[i+1] <= '9' {
			j := i + 1
			for j < len(s) && s[j] >= '0' && s[j] <= '9' {
				j++
			}
			if j < len(s) && s[j] == '(' {
				b.WriteByte('T')
				i = j - 1
				continue
			}
		}
		b.WriteByte(s[i])
	}
	return b.String()
}

func panicKey(p string) string {
	p = stripIDs(p)
	if len(p) > 160 {
		p = p[:160]
	}
	return p
}

func (x *explorer) explore(prefix []vsched.Pick, depth int) {
	if x.stopped {
		return
	}
	if !x.deadline.IsZero() && time.Now().After(x.deadline) {
		x.stopped = true
		x.st.CapHit = "deadline"
		return
	}
	e, r := runOnce(x.sc, x.options(prefix))
	st := x.st
	st.Steps += e.Steps
	if e.HarnessErr != "" {
		st.HarnessErr = e.HarnessErr
		x.stopped = true
		return
	}
	if dumpTraces != "" {
		if f, err := os.OpenFile(dumpTraces, os.O_APPEND|os.O_CREATE|os.O_WRONLY, 0o644); err == nil {
			fmt.Fprintf(f, "EXEC %s shard %d devs %d pruned %v outcome %s\n", x.sc.Name, x.shard, e.Deviations(), e.Pruned, r.Outcome)
			for i, c := range e.Trace {
				if c.Picked != 0 {
					fmt.Fprintf(f, "  choice %d picked %d of %v\n", i, c.Picked, c.Alts)
				}
			}
			f.Close()
		}
	}
	if e.Pruned {
		st.Pruned++
	} else {
		st.Execs++
		if e.Deviations() > 0 {
			st.DeviatedExecs++
		}
		if e.Steps > st.MaxSteps {
			st.MaxSteps = e.Steps
		}
		if e.MaxThreads > st.MaxThreads {
			st.MaxThreads = e.MaxThreads
		}
		if len(e.Trace) > st.MaxChoices {
			st.MaxChoices = len(e.Trace)
		}
		if showOutcomes && st.Outcomes[r.Outcome] == 0 {
			if f, err := os.OpenFile(os.Getenv("VERIF_SHOW_OUTCOMES"), os.O_APPEND|os.O_CREATE|os.O_WRONLY, 0o644); err == nil {
				fmt.Fprintf(f, "OUTCOME %s [shard %d, %d deviations]: %s\n", x.sc.Name, x.shard, e.Deviations(), r.Outcome)
				f.Close()
			}
		}
		st.Outcomes[r.Outcome]++
		for _, v := range r.Violations {
			f := x.found[v.Key]
			if f == nil {
				f = &Found{Violation: v, Scenario: x.sc.Name, Picks: vsched.Picks(e.Trace), Devs: e.Deviations()}
				x.found[v.Key] = f
			}
			f.Count++
		}
	}
	// branch
	devs := 0
	for i := range e.Trace {
		c := &e.Trace[i]
		if i >= len(prefix) {
			for alt := 1; alt < c.N; alt++ {
				if devs+int(c.AltCost) > x.bound {
					continue
				}
				if depth == 0 && x.nshards > 1 {
					x.rootAlt++
					if x.rootAlt%x.nshards != x.shard {
						continue
					}
				}
				np := make([]vsched.Pick, i+1)
				for j := 0; j < i; j++ {
					np[j] = vsched.Pick{I: e.Trace[j].Picked, Sig: e.Trace[j].Sig}
				}
				np[i] = vsched.Pick{I: alt, Sig: c.Sig}
				x.explore(np, depth+1)
				if x.stopped {
					return
				}
			}
		}
		if c.Picked != 0 {
			devs += int(c.AltCost)
		}
	}
}

// Explore runs one scenario (one shard of it) to its bound or until the deadline.
func Explore(sc *Scenario, shard int, deadline time.Time) *Stats {
	return ExploreLevels(sc, shard, deadline, 0, Infinite)
}

// ExploreLevels explores only the bound levels from..to of the scenario's iterative deepening (the pool
// runs every scenario's lower levels before anybody's deepest level, so that a deadline costs the deepest
// level of some scenarios instead of all levels of the scenarios that come late).
func ExploreLevels(sc *Scenario, shard int, deadline time.Time, from, to int) *Stats {
	t0 := time.Now()
	st := &Stats{Scenario: sc.Name, Shard: shard, Outcomes: map[string]int{}, BoundCompleted: -1, FromLevel: from}
	if from > 0 {
		st.BoundCompleted = from - 1 // completed by the item that explored the lower levels (the pool checks that)
	}
	nsh := sc.Shards
	if nsh < 1 {
		nsh = 1
	}
	found := map[string]*Found{}
	bounds := []int{}
	if sc.Unbounded {
		bounds = []int{Infinite}
	} else {
		for b := 0; b <= sc.Bound; b++ {
			if b >= from && b <= to {
				bounds = append(bounds, b)
			}
		}
	}
	for _, b := range bounds {
		// counts are reported for the deepest completed pass only; outcomes accumulate
		pass := &Stats{Outcomes: st.Outcomes}
		x := &explorer{sc: sc, st: pass, bound: b, cache: map[cacheKey]int32{}, deadline: deadline, shard: shard, nshards: nsh, found: found}
		if shard != 0 && nsh > 1 {
			// the root execution itself belongs to shard 0; still needed here to enumerate alternatives
		}
		x.explore(nil, 0)
		st.Steps += pass.Steps
		if pass.HarnessErr != "" {
			st.HarnessErr = pass.HarnessErr
			break
		}
		if x.stopped {
			st.CapHit = fmt.Sprintf("deadline during bound %s after %d executions", boundStr(b), pass.Execs)
			st.Execs += pass.Execs
			st.Pruned += pass.Pruned
			st.DeviatedExecs += pass.DeviatedExecs
			if len(x.cache) > st.States {
				st.States = len(x.cache)
			}
			maxInto(st, pass)
			break
		}
		st.BoundCompleted = b
		st.Execs, st.Pruned, st.DeviatedExecs = pass.Execs, pass.Pruned, pass.DeviatedExecs
		st.States = len(x.cache)
		if sc.NoCache {
			st.States = pass.Execs
		}
		maxInto(st, pass)
		if len(found) > 0 && !allKnownFindings(found) {
			break // the first counterexamples have the fewest deviations; deeper passes add nothing
		}
		// ... unless everything found so far is a listed known finding: then the deeper levels are still explored,
		// so that a known finding at a shallow level cannot hide a different violation of the same scenario below it
	}
	st.Exhaustive = st.CapHit == "" && st.HarnessErr == ""
	// confirm and describe violations
	keys := make([]string, 0, len(found))
	for k := range found {
		keys = append(keys, k)
	}
	sort.Strings(keys)
	for _, k := range keys {
		f := found[k]
		f.Replayed, f.Schedule = confirm(sc, f)
		if strings.HasPrefix(f.Key, "data race:") {
			// the race detector reports each pair of stacks once per process, so a replay in this
			// process cannot show it again; the report itself is the confirmation
			f.Replayed = true
		}
		st.Found = append(st.Found, *f)
	}
	st.WallS = time.Since(t0).Seconds()
	return st
}

func maxInto(st, pass *Stats) {
	if pass.MaxSteps > st.MaxSteps {
		st.MaxSteps = pass.MaxSteps
	}
	if pass.MaxThreads > st.MaxThreads {
		st.MaxThreads = pass.MaxThreads
	}
	if pass.MaxChoices > st.MaxChoices {
		st.MaxChoices = pass.MaxChoices
	}
}

func boundStr(b int) string {
	if b >= Infinite {
		return "unbounded"
	}
	return fmt.Sprint(b)
}

// confirm replays a failing schedule twice and requires identical observations.
func confirm(sc *Scenario, f *Found) (bool, []string) {
	ok := true
	var sched []string
	for i := 0; i < 2; i++ {
		o := vsched.Options{Horizon: sc.Horizon, PreemptOnly: sc.PreemptOnly, EarlyTimers: sc.EarlyTimers, Prefix: f.Picks, MaxSteps: sc.MaxSteps, Describe: true}
		e, r := runOnce(sc, o)
		has := false
		for _, v := range r.Violations {
			if v.Key == f.Key {
				has = true
			}
		}
		if !has || e.HarnessErr != "" {
			ok = false
		}
		if i == 0 {
			sched = DescribeTrace(e)
		}
	}
	return ok, sched
}

// DescribeTrace renders the non-default decisions of an execution.
func DescribeTrace(e *vsched.Exec) []string {
	var out []string
	for i, c := range e.Trace {
		if c.Picked == 0 {
			continue
		}
		alt := ""
		if c.Picked < len(c.Alts) {
			alt = c.Alts[c.Picked] + " instead of " + c.Alts[0]
		}
		out = append(out, fmt.Sprintf("choice %d (%c): pick %d of %d: %s", i, c.Kind, c.Picked, c.N, alt))
	}
	if len(out) == 0 {
		out = []string{"default schedule (no deviation)"}
	}
	return out
}

// deviationsOf lists (choice index, pick) of the non-default choices of an execution (diagnostics).
func deviationsOf(e *vsched.Exec) [][2]int {
	var out [][2]int
	for i, c := range e.Trace {
		if c.Picked != 0 {
			out = append(out, [2]int{i, c.Picked})
		}
	}
	return out
}

// ExploreProperty is the property the process explores for (set by Main and NewReport): ExploreLevels consults the
// committed known findings of that property to decide whether a level's findings end the deepening.
var ExploreProperty string

var knownForExplore *Known

func allKnownFindings(found map[string]*Found) bool {
	if ExploreProperty == "" {
		return false
	}
	if knownForExplore == nil {
		knownForExplore = LoadKnown()
	}
	for k := range found {
		if knownForExplore.Match(ExploreProperty, k) == "" {
			return false
		}
	}
	return true
}
