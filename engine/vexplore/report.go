package vexplore

import (
	"bufio"
	"crypto/sha1"
	"encoding/json"
	"flag"
	"fmt"
	"os"
	"os/exec"
	"path/filepath"
	"runtime"
	"runtime/debug"
	"runtime/pprof"
	"sort"
	"strconv"
	"strings"
	"sync"
	"time"

	"github.com/karagenc/socket.io-go/internal/vsched"
)

// VerifDir is where known_findings.json, evidence/ and replays/ live.
func VerifDir() string {
	if d := os.Getenv("VERIF_DIR"); d != "" {
		return d
	}
	return "/verif"
}

func Seed() int64 {
	n, _ := strconv.ParseInt(os.Getenv("VERIF_SEED"), 10, 64)
	return n
}

// Known is the committed list of known findings.
type Known struct {
	Findings []struct {
		Property string `json:"property"`
		Key      string `json:"key"`
		What     string `json:"what"`
	} `json:"known_findings"`
	Fixed []string `json:"fixed"`
}

func LoadKnown() *Known {
	k := &Known{}
	b, err := os.ReadFile(filepath.Join(VerifDir(), "known_findings.json"))
	if err == nil {
		if err := json.Unmarshal(b, k); err != nil {
			fmt.Fprintf(os.Stderr, "known_findings.json: %v\n", err)
			os.Exit(2)
		}
	}
	return k
}

// Match returns the description of the known finding with that property and key ("" if none). A
// listed key that ends in '*' matches by prefix.
func (k *Known) Match(prop, key string) string {
	for _, f := range k.Findings {
		if f.Property != prop {
			continue
		}
		if f.Key == key || (strings.HasSuffix(f.Key, "*") && strings.HasPrefix(key, strings.TrimSuffix(f.Key, "*"))) {
			if f.What == "" {
				return f.Key
			}
			return f.What
		}
	}
	return ""
}

// Report collects what one check run covered and found, for any engine.
type Report struct {
	Property string
	Tier     string
	Level    string
	Rule     string
	T0       time.Time

	Evaluations      int
	DistinctNontriv  int
	States           int
	Transitions      int
	TracesValidated  int
	DistinctOutcomes int
	BoundCompleted   string
	CapsHit          []string
	Exhaustive       bool
	Samples          []any
	Assumptions      []string
	Extra            map[string]any
	violations       map[string]*reported
	order            []string
	HarnessErrs      []string
}

type reported struct {
	Violation
	Count  int
	Replay any
}

func NewReport(prop, tier, level string) *Report {
	ExploreProperty = prop
	return &Report{Property: prop, Tier: tier, Level: level, T0: time.Now(), Exhaustive: true, Extra: map[string]any{}, violations: map[string]*reported{}}
}

// Violate records a violation; replay is any JSON-serialisable description sufficient to reproduce it.
func (r *Report) Violate(key, msg string, replay any) {
	v := r.violations[key]
	if v == nil {
		v = &reported{Violation: Violation{Key: key, Msg: msg}, Replay: replay}
		r.violations[key] = v
		r.order = append(r.order, key)
	}
	v.Count++
}

func (r *Report) Sample(s any) {
	if len(r.Samples) < 6 {
		r.Samples = append(r.Samples, s)
	}
}

// Finish writes the evidence file, prints KNOWN-FINDING / VIOLATION lines and exits.
func (r *Report) Finish() {
	known := LoadKnown()
	dir := VerifDir()
	if d := os.Getenv("VERIF_OUT"); d != "" {
		dir = d // mutant / scratch runs must not overwrite the committed evidence
	}
	os.MkdirAll(filepath.Join(dir, "evidence"), 0o755)
	os.MkdirAll(filepath.Join(dir, "replays"), 0o755)
	nviol := 0
	var knownHit, unknown []string
	sort.Strings(r.order)
	for _, key := range r.order {
		v := r.violations[key]
		if what := known.Match(r.Property, key); what != "" {
			fmt.Printf("KNOWN-FINDING: property=%s key=%q %s (seen %d times)\n", r.Property, key, what, v.Count)
			knownHit = append(knownHit, key)
			continue
		}
		nviol++
		h := sha1.Sum([]byte(key))
		path := filepath.Join(dir, "replays", fmt.Sprintf("%s-%x.json", r.Property, h[:5]))
		b, _ := json.MarshalIndent(map[string]any{"property": r.Property, "key": key, "message": v.Msg, "count": v.Count, "replay": v.Replay}, "", " ")
		os.WriteFile(path, b, 0o644)
		fmt.Printf("VIOLATION property=%s replay=%s\n", r.Property, path)
		fmt.Printf("  key: %s\n  %s\n", key, v.Msg)
		unknown = append(unknown, key)
	}
	cov := map[string]any{
		"evaluations":         r.Evaluations,
		"distinct_nontrivial": r.DistinctNontriv,
		"rule":                r.Rule,
		"samples":             r.Samples,
		"exhaustive":          r.Exhaustive && len(r.CapsHit) == 0,
		"distinct_outcomes":   r.DistinctOutcomes,
		"bound_completed":     r.BoundCompleted,
		"caps_hit":            nonNil(r.CapsHit),
		"known_findings_seen": nonNil(knownHit),
		"violation_keys":      nonNil(unknown),
	}
	if r.Level == "model_checking" {
		cov["states"] = r.States
		cov["transitions"] = r.Transitions
		cov["traces_validated_against_impl"] = r.TracesValidated
	}
	for k, v := range r.Extra {
		cov[k] = v
	}
	if len(r.Samples) == 0 {
		cov["samples"] = []any{"(none recorded)"}
	}
	ev := map[string]any{
		"property_id": r.Property,
		"tier":        r.Tier,
		"seed":        Seed(),
		"level":       r.Level,
		"coverage":    cov,
		"assumptions": r.Assumptions,
		"wall_s":      time.Since(r.T0).Seconds(),
		"violations":  nviol,
	}
	b, _ := json.MarshalIndent(ev, "", " ")
	if err := os.WriteFile(filepath.Join(dir, "evidence", r.Property+".json"), b, 0o644); err != nil {
		fmt.Fprintf(os.Stderr, "evidence: %v\n", err)
		os.Exit(2)
	}
	fmt.Printf("%s %s: evaluations=%d distinct_nontrivial=%d states=%d transitions=%d outcomes=%d bound=%s exhaustive=%v caps=%v violations=%d known=%d wall=%.1fs\n",
		r.Property, r.Tier, r.Evaluations, r.DistinctNontriv, r.States, r.Transitions, r.DistinctOutcomes, r.BoundCompleted, cov["exhaustive"], r.CapsHit, nviol, len(knownHit), time.Since(r.T0).Seconds())
	for _, h := range r.HarnessErrs {
		fmt.Printf("HARNESS-ERROR property=%s %s\n", r.Property, h)
	}
	if nviol > 0 {
		// confirmed violations decide the exit status even if other parts of the run had trouble
		// (e.g. code whose behaviour now depends on map iteration order also makes replays diverge)
		os.Exit(1)
	}
	if len(r.HarnessErrs) > 0 {
		os.Exit(2)
	}
	os.Exit(0)
}

// ---------------------------------------------------------------- scheduling harness main

// Config of a schedule-exploration check.
type Config struct {
	Property string
	Level    string // usually model_checking
	Rule     string
	// Scenarios returns the scenario list for a tier ("quick" / "thorough").
	Scenarios func(tier string) []*Scenario
	// Budget is the wall-clock budget for the whole run in a tier.
	Budget      func(tier string) time.Duration
	Assumptions []string
	// Extra lets a check run additional (sequential) parts in the coordinator and add to the report.
	Extra func(tier string, r *Report)
}

type workItem struct {
	Idx   int
	Shard int
	// bound levels of the iterative deepening this item explores (From..To)
	From, To int
}

// Main is the entry point of a harness binary built on the explorer.
func Main(cfg Config) {
	ExploreProperty = cfg.Property
	tier := flag.String("tier", envOr("VERIF_TIER", "quick"), "quick|thorough")
	worker := flag.Bool("worker", false, "internal: worker mode")
	replay := flag.String("replay", "", "replay file")
	only := flag.String("only", "", "substring filter on scenario names")
	list := flag.Bool("list", false, "list scenarios")
	procs := flag.Int("procs", runtime.NumCPU(), "worker processes")
	flag.Parse()
	scs := cfg.Scenarios(*tier)
	if *only != "" {
		var f []*Scenario
		for _, s := range scs {
			if strings.Contains(s.Name, *only) {
				f = append(f, s)
			}
		}
		scs = f
	}
	if *list {
		for i, s := range scs {
			fmt.Println(i, s.Name)
		}
		return
	}
	if *replay != "" {
		doReplay(cfg, *replay)
		return
	}
	if *worker {
		debug.SetGCPercent(800)
		if pf := os.Getenv("VERIF_CPUPROFILE"); pf != "" {
			f, _ := os.Create(pf)
			pprof.StartCPUProfile(f)
			defer pprof.StopCPUProfile()
		}
		workerLoop(scs)
		return
	}
	budget := 120 * time.Second
	if cfg.Budget != nil {
		budget = cfg.Budget(*tier)
	}
	deadline := time.Now().Add(budget)
	r := NewReport(cfg.Property, *tier, cfg.Level)
	r.Rule = cfg.Rule
	r.Assumptions = cfg.Assumptions
	var items []workItem
	shards := func(s *Scenario) int {
		if s.Shards < 1 {
			return 1
		}
		return s.Shards
	}
	// first the explorations that cannot be cut into levels (default schedule only, or all interleavings: these
	// are the small spaces by design), then every bounded scenario's lower levels, and in the time that is left
	// everybody's deepest level: when the budget runs out, every scenario has been covered to the same depth
	for i, s := range scs {
		for k := 0; k < shards(s); k++ {
			if s.Unbounded || s.Bound < 1 {
				items = append(items, workItem{i, k, 0, Infinite})
			}
		}
	}
	for i, s := range scs {
		for k := 0; k < shards(s); k++ {
			if !(s.Unbounded || s.Bound < 1) {
				items = append(items, workItem{i, k, 0, s.Bound - 1})
			}
		}
	}
	for i, s := range scs {
		for k := 0; k < shards(s); k++ {
			if !(s.Unbounded || s.Bound < 1) {
				items = append(items, workItem{i, k, s.Bound, s.Bound})
			}
		}
	}
	stats := mergeLevels(runPool(items, *procs, *tier, *only, deadline, r), items)
	minBound := Infinite
	outcomes := map[string]bool{}
	var perScenario []map[string]any
	for _, st := range stats {
		if st == nil {
			continue
		}
		r.Evaluations += st.Execs
		r.TracesValidated += st.Execs
		r.DistinctNontriv += st.DeviatedExecs
		r.States += st.States
		r.Transitions += st.Steps
		if st.BoundCompleted < minBound {
			minBound = st.BoundCompleted
		}
		for o := range st.Outcomes {
			outcomes[st.Scenario+"|"+o] = true
		}
		if st.CapHit != "" {
			r.CapsHit = append(r.CapsHit, st.Scenario+": "+st.CapHit)
		}
		if st.HarnessErr != "" {
			r.HarnessErrs = append(r.HarnessErrs, st.Scenario+": "+st.HarnessErr)
		}
		for _, f := range st.Found {
			msg := fmt.Sprintf("[%s] %s (in %d executions; first with %d deviations; replayed identically: %v)", f.Scenario, f.Msg, f.Count, f.Devs, f.Replayed)
			if !f.Replayed {
				r.HarnessErrs = append(r.HarnessErrs, "violation did not replay identically (machinery bug, not a verdict): "+msg)
				continue
			}
			r.Violate(f.Key, msg, map[string]any{"scenario": f.Scenario, "picks": f.Picks, "schedule": f.Schedule, "tier": *tier})
		}
		perScenario = append(perScenario, map[string]any{"scenario": st.Scenario, "shard": st.Shard, "executions": st.Execs, "pruned_equivalent": st.Pruned, "steps": st.Steps, "states": st.States,
			"bound_completed": boundStr(st.BoundCompleted), "distinct_outcomes": len(st.Outcomes), "max_threads": st.MaxThreads, "max_steps_per_execution": st.MaxSteps, "wall_s": st.WallS, "cap": st.CapHit})
		if len(st.Sample) > 0 {
			r.Sample(map[string]any{"scenario": st.Scenario, "schedule": st.Sample})
		}
	}
	r.DistinctOutcomes = len(outcomes)
	if minBound == Infinite {
		r.BoundCompleted = "unbounded (all interleavings, happens-before pruned)"
	} else {
		r.BoundCompleted = fmt.Sprintf("min over scenarios: %d deviations", minBound)
	}
	r.Extra["scenarios"] = perScenario
	r.Extra["n_scenarios"] = len(scs)
	if cfg.Extra != nil {
		cfg.Extra(*tier, r)
	}
	r.Finish()
}

// mergeLevels joins the two items of one (scenario, shard) - lower levels, deepest level - into one Stats:
// the deepest level counts as completed only if the lower ones were; executions, steps and findings add up.
func mergeLevels(stats []*Stats, items []workItem) []*Stats {
	type key struct{ idx, shard int }
	lower := map[key]*Stats{}
	var out []*Stats
	for i, it := range items {
		st := stats[i]
		k := key{it.Idx, it.Shard}
		if it.From == 0 && it.To != Infinite {
			lower[k] = st // may be nil (worker died)
			continue
		}
		if it.From == 0 { // single item (unbounded or bound 0)
			out = append(out, st)
			continue
		}
		lo := lower[k]
		switch {
		case lo == nil && st == nil:
			out = append(out, nil)
		case lo == nil:
			st.BoundCompleted = -1
			out = append(out, st)
		case st == nil:
			out = append(out, lo)
		default:
			m := *st
			if !lo.Exhaustive || len(lo.Found) > 0 || lo.BoundCompleted < it.From-1 {
				// the lower levels did not complete (or already failed): what they say stands; the deepest
				// level's executions are still counted
				m.BoundCompleted = lo.BoundCompleted
				if m.CapHit == "" {
					m.CapHit = lo.CapHit
				}
			}
			m.Execs += lo.Execs
			m.Pruned += lo.Pruned
			m.Steps += lo.Steps
			// the schedules of a lower level are executed again at the deepest one: distinct ones are counted once
			if st.CapHit != "" && lo.DeviatedExecs > m.DeviatedExecs {
				m.DeviatedExecs = lo.DeviatedExecs
			}
			if lo.States > m.States {
				m.States = lo.States
			}
			if lo.MaxSteps > m.MaxSteps {
				m.MaxSteps = lo.MaxSteps
			}
			if lo.MaxThreads > m.MaxThreads {
				m.MaxThreads = lo.MaxThreads
			}
			if lo.MaxChoices > m.MaxChoices {
				m.MaxChoices = lo.MaxChoices
			}
			m.Outcomes = map[string]int{}
			for o, n := range lo.Outcomes {
				m.Outcomes[o] += n
			}
			for o, n := range st.Outcomes {
				m.Outcomes[o] += n
			}
			seen := map[string]bool{}
			m.Found = nil
			for _, f := range append(append([]Found{}, lo.Found...), st.Found...) {
				if !seen[f.Key] { // the lower level's counterexample has fewer deviations: keep the first
					seen[f.Key] = true
					m.Found = append(m.Found, f)
				}
			}
			if m.HarnessErr == "" {
				m.HarnessErr = lo.HarnessErr
			}
			m.Exhaustive = m.CapHit == "" && m.HarnessErr == ""
			m.CacheFull = m.CacheFull || lo.CacheFull
			m.WallS += lo.WallS
			if len(m.Sample) == 0 {
				m.Sample = lo.Sample
			}
			out = append(out, &m)
		}
	}
	return out
}

func envOr(k, d string) string {
	if v := os.Getenv(k); v != "" {
		return v
	}
	return d
}

func workerLoop(scs []*Scenario) {
	in := bufio.NewScanner(os.Stdin)
	out := bufio.NewWriter(os.Stdout)
	for in.Scan() {
		var idx, shard int
		var dl int64
		from, to := 0, Infinite
		fmt.Sscan(in.Text(), &idx, &shard, &dl, &from, &to)
		st := ExploreLevels(scs[idx], shard, time.UnixMilli(dl), from, to)
		if len(st.Sample) == 0 {
			st.Sample = sampleSchedule(scs[idx])
		}
		b, _ := json.Marshal(st)
		out.WriteString("RESULT " + string(b) + "\n")
		out.Flush()
	}
}

// sampleSchedule renders the default schedule of a scenario (first 12 steps) as a written-out sample.
func sampleSchedule(sc *Scenario) []string {
	var lines []string
	o := vsched.Options{Horizon: sc.Horizon, PreemptOnly: sc.PreemptOnly, EarlyTimers: sc.EarlyTimers, MaxSteps: sc.MaxSteps,
		Trace: func(s string) {
			if len(lines) < 12 {
				lines = append(lines, s)
			}
		}}
	runOnce(sc, o)
	return lines
}

func runPool(items []workItem, procs int, tier, only string, deadline time.Time, r *Report) []*Stats {
	if procs > len(items) {
		procs = len(items)
	}
	if procs < 1 {
		procs = 1
	}
	stats := make([]*Stats, len(items))
	var mu sync.Mutex
	next := 0
	var wg sync.WaitGroup
	self, _ := os.Executable()
	for w := 0; w < procs; w++ {
		wg.Add(1)
		go func() {
			defer wg.Done()
			for {
				mu.Lock()
				if next >= len(items) {
					mu.Unlock()
					return
				}
				// one process per batch of items; a crashed worker loses only its current item
				mu.Unlock()
				args := []string{"-worker", "-tier", tier}
				if only != "" {
					args = append(args, "-only", only)
				}
				cmd := exec.Command(self, args...)
				cmd.Env = append(os.Environ(), "GOMAXPROCS=2")
				if vsched.RaceEnabled {
					logp := filepath.Join(os.TempDir(), fmt.Sprintf("verif-race-%d", os.Getpid()))
					cmd.Env = append(cmd.Env, "VERIF_RACE_LOG="+logp, "GORACE=log_path="+logp+" halt_on_error=0 history_size=2")
				}
				stdin, _ := cmd.StdinPipe()
				stdout, _ := cmd.StdoutPipe()
				var stderr strings.Builder
				cmd.Stderr = &stderr
				if err := cmd.Start(); err != nil {
					mu.Lock()
					r.HarnessErrs = append(r.HarnessErrs, "cannot start worker: "+err.Error())
					mu.Unlock()
					return
				}
				rd := bufio.NewReaderSize(stdout, 1<<20)
				served := 0
				for served < 200 { // recycle workers now and then
					mu.Lock()
					if next >= len(items) {
						mu.Unlock()
						break
					}
					i := next
					next++
					mu.Unlock()
					fmt.Fprintf(stdin, "%d %d %d %d %d\n", items[i].Idx, items[i].Shard, deadline.UnixMilli(), items[i].From, items[i].To)
					var st *Stats
					for {
						line, err := rd.ReadString('\n')
						if strings.HasPrefix(line, "RESULT ") {
							st = &Stats{}
							if e := json.Unmarshal([]byte(line[7:]), st); e != nil {
								st = nil
							}
							break
						}
						if err != nil {
							break
						}
					}
					if st == nil {
						stdin.Close()
						cmd.Wait()
						mu.Lock()
						tail := stderr.String()
						if len(tail) > 3000 {
							tail = tail[:1500] + "\n...\n" + tail[len(tail)-1500:]
						}
						r.HarnessErrs = append(r.HarnessErrs, fmt.Sprintf("worker died on item %v: %s", items[i], tail))
						mu.Unlock()
						served = -1
						break
					}
					mu.Lock()
					stats[i] = st
					mu.Unlock()
					served++
				}
				if served >= 0 {
					stdin.Close()
					cmd.Wait()
				}
			}
		}()
	}
	wg.Wait()
	if vsched.RaceEnabled {
		if logs, _ := filepath.Glob(filepath.Join(os.TempDir(), fmt.Sprintf("verif-race-%d.*", os.Getpid()))); logs != nil {
			for _, l := range logs {
				os.Remove(l)
			}
		}
	}
	return stats
}

func doReplay(cfg Config, path string) {
	b, err := os.ReadFile(path)
	if err != nil {
		fmt.Fprintln(os.Stderr, err)
		os.Exit(2)
	}
	var f struct {
		Key    string `json:"key"`
		Replay struct {
			Scenario string        `json:"scenario"`
			Picks    []vsched.Pick `json:"picks"`
			Tier     string        `json:"tier"`
		} `json:"replay"`
	}
	if err := json.Unmarshal(b, &f); err != nil {
		fmt.Fprintln(os.Stderr, err)
		os.Exit(2)
	}
	tier := f.Replay.Tier
	if tier == "" {
		tier = "quick"
	}
	for _, sc := range cfg.Scenarios(tier) {
		if sc.Name != f.Replay.Scenario {
			continue
		}
		o := vsched.Options{Horizon: sc.Horizon, PreemptOnly: sc.PreemptOnly, EarlyTimers: sc.EarlyTimers, Prefix: f.Replay.Picks, MaxSteps: sc.MaxSteps, Describe: true,
			Trace: func(s string) { fmt.Println("  " + s) }}
		e, r := runOnce(sc, o)
		fmt.Printf("outcome: %s\n", r.Outcome)
		for _, l := range DescribeTrace(e) {
			fmt.Println("deviation:", l)
		}
		if e.HarnessErr != "" {
			fmt.Println("HARNESS-ERROR", e.HarnessErr)
			os.Exit(2)
		}
		hit := false
		for _, v := range r.Violations {
			fmt.Printf("violation key=%q: %s\n", v.Key, v.Msg)
			if v.Key == f.Key {
				hit = true
			}
		}
		if hit {
			fmt.Printf("VIOLATION property=%s replay=%s\n", cfg.Property, path)
			os.Exit(1)
		}
		fmt.Println("the recorded violation does not occur on this tree")
		os.Exit(0)
	}
	fmt.Fprintf(os.Stderr, "scenario %q not found\n", f.Replay.Scenario)
	os.Exit(2)
}

func nonNil(s []string) []string {
	if s == nil {
		return []string{}
	}
	return s
}
