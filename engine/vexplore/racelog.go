package vexplore

import (
	"fmt"
	"os"
	"path/filepath"
	"sort"
	"strings"
)

// Race-detector integration (C16). A harness built with -race runs its workers with
// GORACE=log_path=<prefix>; TSan appends every new report to <prefix>.<pid>. After each execution the
// explorer looks at what was appended: the reports belong to the schedule that just ran (TSan reports
// each distinct pair of stacks once per process).

var raceLogOff int64

func raceLogPath() string {
	p := os.Getenv("VERIF_RACE_LOG")
	if p == "" {
		return ""
	}
	return fmt.Sprintf("%s.%d", p, os.Getpid())
}

// RaceReport is one parsed TSan report.
type RaceReport struct {
	A, B string // function of each racing access (first non-runtime frame)
	FA   string // file of A
	FB   string
	Text string
}

func newRaceReports() []RaceReport {
	path := raceLogPath()
	if path == "" {
		return nil
	}
	f, err := os.Open(path)
	if err != nil {
		return nil
	}
	defer f.Close()
	st, err := f.Stat()
	if err != nil || st.Size() <= raceLogOff {
		return nil
	}
	buf := make([]byte, st.Size()-raceLogOff)
	f.ReadAt(buf, raceLogOff)
	raceLogOff = st.Size()
	return ParseRaceLog(string(buf))
}

// ParseRaceLog splits TSan output into reports.
func ParseRaceLog(s string) []RaceReport {
	var out []RaceReport
	parts := strings.Split(s, "WARNING: DATA RACE")
	for _, p := range parts[1:] {
		if i := strings.Index(p, "=================="); i >= 0 {
			p = p[:i]
		}
		var stacks [][2]string // (func, file) of the chosen frame per stack
		lines := strings.Split(p, "\n")
		for i := 0; i < len(lines); i++ {
			l := lines[i]
			isHead := (strings.HasPrefix(l, "Read at ") || strings.HasPrefix(l, "Write at ") || strings.HasPrefix(l, "Previous read at ") || strings.HasPrefix(l, "Previous write at ") ||
				strings.HasPrefix(l, "Atomic") || strings.HasPrefix(l, "Previous atomic"))
			if !isHead {
				continue
			}
			fn, file := "?", "?"
			for j := i + 1; j+1 < len(lines) && strings.HasPrefix(lines[j], "  "); j += 2 {
				f := strings.TrimSpace(lines[j])
				loc := strings.TrimSpace(lines[j+1])
				if strings.HasPrefix(f, "runtime.") || strings.HasPrefix(f, "reflect.") || strings.HasPrefix(f, "sync/atomic.") || strings.HasPrefix(f, "internal/") {
					continue
				}
				fn, file = f, loc
				break
			}
			stacks = append(stacks, [2]string{fn, file})
		}
		if len(stacks) < 2 {
			continue
		}
		r := RaceReport{A: stacks[0][0], FA: stacks[0][1], B: stacks[1][0], FB: stacks[1][1], Text: strings.TrimSpace(p)}
		if len(r.Text) > 3000 {
			r.Text = r.Text[:3000] + "..."
		}
		out = append(out, r)
	}
	return out
}

// inRepo reports whether a frame location lies in the code under test (not in the harness, the
// scheduler, the rigs or a dependency).
func inRepo(loc string) bool {
	if i := strings.LastIndex(loc, " +0x"); i >= 0 {
		loc = loc[:i]
	}
	if i := strings.LastIndexByte(loc, ':'); i >= 0 {
		loc = loc[:i]
	}
	base := filepath.Base(loc)
	// a plain build compiles the repository's files from where they are: /repo, or the checkout VERIF_REPO names
	if root := strings.TrimSuffix(os.Getenv("VERIF_REPO"), "/"); root != "" && root != "/repo" && strings.HasPrefix(loc, root+"/") {
		loc = "/repo/" + strings.TrimPrefix(loc, root+"/")
	}
	switch {
	case strings.Contains(loc, "/.work/") && strings.Contains(loc, "/rw/"):
		return !strings.HasPrefix(base, "golang_set__")
	case strings.HasPrefix(loc, "/repo/internal/vsched/"), strings.HasPrefix(loc, "/repo/internal/vexplore/"), strings.HasPrefix(loc, "/repo/internal/vrig/"), strings.HasPrefix(loc, "/repo/internal/vh/"):
		return false
	case strings.HasPrefix(loc, "/repo/"):
		return !strings.HasPrefix(base, "zz_verif_")
	}
	return false
}

func cleanFunc(f string) string {
	f = strings.TrimSuffix(f, "()")
	if i := strings.LastIndex(f, "/"); i >= 0 {
		f = f[i+1:]
	}
	return strings.ReplaceAll(f, "%2e", ".")
}

// raceViolations turns the reports appended by the last execution into violations (only those in
// which at least one racing access is in the repository's code).
func raceViolations() []Violation {
	var out []Violation
	for _, r := range newRaceReports() {
		if !inRepo(r.FA) && !inRepo(r.FB) {
			continue
		}
		fs := []string{cleanFunc(r.A), cleanFunc(r.B)}
		sort.Strings(fs)
		out = append(out, Violation{Key: "data race: " + fs[0] + " / " + fs[1], Msg: "race detector report under the explored happens-before relation:\n" + r.Text})
	}
	return out
}

// InRepo / CleanFunc: exported for harness parts that read a race log of their own (free-running companions).
func InRepo(file string) bool    { return inRepo(file) }
func CleanFunc(fn string) string { return cleanFunc(fn) }
