// Package instr rewrites the repository's sources so that every source of scheduling nondeterminism
// goes through vsched (see /verif/DESIGN.md section 2.1). It never writes to the repository: the
// rewritten files go to a work directory and are substituted with `go build -overlay`.
package instr

import (
	"bytes"
	"encoding/json"
	"fmt"
	"go/ast"
	"go/format"
	"go/importer"
	"go/parser"
	"go/token"
	"go/types"
	"io"
	"os"
	"os/exec"
	"path/filepath"
	"sort"
	"strconv"
	"strings"
)

const Module = "github.com/karagenc/socket.io-go"
const VschedPath = Module + "/internal/vsched"

// Packages (relative to the repository root) whose sources are rewritten.
var Packages = []string{".", "adapter", "engine.io", "engine.io/transport", "engine.io/transport/polling", "internal/utils"}

type Instrumenter struct {
	Repo    string
	Out     string                                        // directory for rewritten files
	Mutate  func(path string, src []byte) ([]byte, error) // optional source substitution before rewriting
	Overlay map[string]string                             // result: original path -> replacement
	exports map[string]string
	fset    *token.FileSet
	Log     io.Writer
}

func (in *Instrumenter) loadExports() error {
	cmd := exec.Command("go", "list", "-export", "-deps", "-f", "{{.ImportPath}}={{.Export}}", "./...")
	cmd.Dir = in.Repo
	cmd.Env = append(os.Environ(), "GOFLAGS=-mod=mod", "GOPROXY=off", "GOSUMDB=off", "GOTOOLCHAIN=local")
	var stderr bytes.Buffer
	cmd.Stderr = &stderr
	out, err := cmd.Output()
	if err != nil {
		return fmt.Errorf("go list -export failed (does the repository build?): %v\n%s", err, stderr.String())
	}
	in.exports = map[string]string{}
	for _, l := range strings.Split(string(out), "\n") {
		if i := strings.IndexByte(l, '='); i > 0 && i+1 < len(l) {
			in.exports[l[:i]] = l[i+1:]
		}
	}
	return nil
}

// Run rewrites all packages.
func (in *Instrumenter) Run() error {
	if in.Overlay == nil {
		in.Overlay = map[string]string{}
	}
	if err := in.loadExports(); err != nil {
		return err
	}
	if err := os.MkdirAll(in.Out, 0o755); err != nil {
		return err
	}
	for _, p := range Packages {
		if err := in.pkg(p); err != nil {
			return fmt.Errorf("package %s: %w", p, err)
		}
	}
	return nil
}

func (in *Instrumenter) pkg(rel string) error {
	in.fset = token.NewFileSet()
	dir := filepath.Join(in.Repo, rel)
	ents, err := os.ReadDir(dir)
	if err != nil {
		return err
	}
	var files []*ast.File
	var paths []string
	for _, e := range ents {
		n := e.Name()
		if e.IsDir() || !strings.HasSuffix(n, ".go") || strings.HasSuffix(n, "_test.go") {
			continue
		}
		path := filepath.Join(dir, n)
		src, err := os.ReadFile(path)
		if err != nil {
			return err
		}
		if in.Mutate != nil {
			if src, err = in.Mutate(path, src); err != nil {
				return err
			}
		}
		if !buildTagsOK(src) {
			continue
		}
		f, err := parser.ParseFile(in.fset, path, src, parser.ParseComments)
		if err != nil {
			return err
		}
		files = append(files, f)
		paths = append(paths, path)
	}
	info := &types.Info{Types: map[ast.Expr]types.TypeAndValue{}, Uses: map[*ast.Ident]types.Object{}, Defs: map[*ast.Ident]types.Object{}}
	conf := types.Config{
		Importer: importer.ForCompiler(in.fset, "gc", func(path string) (io.ReadCloser, error) {
			f, ok := in.exports[path]
			if !ok || f == "" {
				return nil, fmt.Errorf("no export data for %s", path)
			}
			return os.Open(f)
		}),
		Error: func(err error) {},
	}
	ip := Module
	if rel != "." {
		ip += "/" + rel
	}
	_, err = conf.Check(ip, in.fset, files, info)
	if err != nil {
		return fmt.Errorf("type check: %w", err)
	}
	for i, f := range files {
		r := &rw{in: in, info: info, file: filepath.Base(paths[i]), fset: in.fset}
		data, changed, err := r.rewrite(f)
		if err != nil {
			return fmt.Errorf("%s: %w", paths[i], err)
		}
		if !changed && in.Mutate == nil {
			continue
		}
		if !changed {
			// a mutated but otherwise untouched file still has to be substituted
			var buf bytes.Buffer
			if err := format.Node(&buf, in.fset, f); err != nil {
				return err
			}
			data = buf.Bytes()
		}
		if err := lint(paths[i], data); err != nil {
			return err
		}
		dst := filepath.Join(in.Out, strings.ReplaceAll(filepath.Join(rel, filepath.Base(paths[i])), "/", "__"))
		if err := os.WriteFile(dst, data, 0o644); err != nil {
			return err
		}
		in.Overlay[paths[i]] = dst
	}
	return nil
}

// buildTagsOK evaluates the only constraints the repository uses.
func buildTagsOK(src []byte) bool {
	for _, l := range strings.SplitN(string(src), "\n", 12) {
		l = strings.TrimSpace(l)
		if strings.HasPrefix(l, "//go:build") {
			expr := strings.TrimSpace(strings.TrimPrefix(l, "//go:build"))
			switch expr {
			case "sio_deadlock", "sio_debugger", "sio_debugger_print_goroutines", "sio_svelte_generate", "ignore":
				return false
			case "!sio_deadlock", "!sio_debugger", "verif", "!sio_svelte_generate":
				return true
			}
			if strings.Contains(expr, "!") {
				return true
			}
			return false
		}
		if strings.HasPrefix(l, "package ") {
			break
		}
	}
	return true
}

type rw struct {
	in       *Instrumenter
	info     *types.Info
	fset     *token.FileSet
	file     string
	changed  bool
	fn       string
	ord      map[string]int
	err      error
	usesTime bool
}

func sel(x, s string) ast.Expr { return &ast.SelectorExpr{X: ast.NewIdent(x), Sel: ast.NewIdent(s)} }
func str(s string) ast.Expr    { return &ast.BasicLit{Kind: token.STRING, Value: strconv.Quote(s)} }

func (r *rw) fail(pos token.Pos, format string, a ...any) {
	if r.err == nil {
		r.err = fmt.Errorf("%s: %s", r.fset.Position(pos), fmt.Sprintf(format, a...))
	}
}

func (r *rw) pkgOf(x ast.Expr) string {
	id, ok := x.(*ast.Ident)
	if !ok {
		return ""
	}
	if pn, ok := r.info.Uses[id].(*types.PkgName); ok {
		return pn.Imported().Path()
	}
	return ""
}

func (r *rw) rewrite(f *ast.File) ([]byte, bool, error) {
	r.ord = map[string]int{}
	// statements, function by function (for stable site names)
	for _, d := range f.Decls {
		fd, ok := d.(*ast.FuncDecl)
		if !ok || fd.Body == nil {
			continue
		}
		r.fn = fd.Name.Name
		r.block(fd.Body)
	}
	// function literals at package level (var x = func(){...})
	for _, d := range f.Decls {
		if gd, ok := d.(*ast.GenDecl); ok && gd.Tok == token.VAR {
			r.fn = "init"
			ast.Inspect(gd, func(n ast.Node) bool {
				if fl, ok := n.(*ast.FuncLit); ok {
					r.block(fl.Body)
					return false
				}
				return true
			})
		}
	}
	// expression-level rewrites
	ast.Inspect(f, func(n ast.Node) bool {
		switch x := n.(type) {
		case *ast.CallExpr:
			if id, ok := x.Fun.(*ast.Ident); ok && id.Name == "close" && len(x.Args) == 1 {
				if _, isBuiltin := r.info.Uses[id].(*types.Builtin); isBuiltin {
					x.Fun = sel("vsched", "Close")
					r.changed = true
				}
			}
			if se, ok := x.Fun.(*ast.SelectorExpr); ok {
				switch r.pkgOf(se.X) {
				case "time":
					switch se.Sel.Name {
					case "Sleep", "After", "Now", "Since", "Until", "AfterFunc", "NewTimer", "NewTicker", "Tick":
						x.Fun = sel("vsched", se.Sel.Name)
						r.changed = true
					}
				case "math/rand":
					switch se.Sel.Name {
					case "Float64":
						x.Fun = sel("vsched", "EnvFloat64")
						r.changed = true
					default:
						r.fail(x.Pos(), "math/rand.%s is not modelled by vsched", se.Sel.Name)
					}
				case "crypto/rand":
					switch se.Sel.Name {
					case "Read":
						x.Fun = sel("vsched", "EnvRandRead")
						r.changed = true
					default:
						r.fail(x.Pos(), "crypto/rand.%s is not modelled by vsched", se.Sel.Name)
					}
				}
			}
		case *ast.SelectorExpr:
			if r.pkgOf(x.X) == "sync/atomic" {
				switch n := x.Sel.Name; {
				case n == "Value" || n == "Bool" || n == "Int32" || n == "Int64" || n == "Uint32" || n == "Uint64" || n == "Pointer":
					// the types: atomic.Bool -> vsched.AtomicBool, atomic.Pointer[T] -> vsched.AtomicPointer[T]
					x.X = ast.NewIdent("vsched")
					x.Sel = ast.NewIdent("Atomic" + n)
					r.changed = true
				case atomicFuncs[n]:
					// the function forms: atomic.AddInt32(&x, 1) -> vsched.AtomicAddInt32(&x, 1)
					x.X = ast.NewIdent("vsched")
					x.Sel = ast.NewIdent("Atomic" + n)
					r.changed = true
				default:
					r.fail(x.Pos(), "sync/atomic.%s is not modelled by vsched", n)
				}
			}
			if r.pkgOf(x.X) == "time" && (x.Sel.Name == "Timer" || x.Sel.Name == "Ticker") {
				x.X = ast.NewIdent("vsched")
				r.changed = true
			}
			if r.pkgOf(x.X) == "sync" {
				r.fail(x.Pos(), "direct use of package sync (%s) bypasses internal/sync and the scheduler", x.Sel.Name)
			}
		case *ast.UnaryExpr:
			if x.Op == token.ARROW {
				r.fail(x.Pos(), "receive expression whose value is used is not modelled by vsched")
			}
		case *ast.RangeStmt:
			if t := r.info.TypeOf(x.X); t != nil {
				if _, ok := t.Underlying().(*types.Chan); ok {
					r.fail(x.Pos(), "range over channel is not modelled by vsched")
				}
			}
		}
		return true
	})
	if r.err != nil {
		return nil, false, r.err
	}
	if !r.changed {
		return nil, false, nil
	}
	addImport(f, VschedPath)
	var buf bytes.Buffer
	if err := format.Node(&buf, r.fset, f); err != nil {
		return nil, false, err
	}
	data := dropUnusedImports(buf.Bytes())
	return data, true, nil
}

// dropUnusedImports removes imports that the rewrite made unused ("time", "sync/atomic", rand).
func dropUnusedImports(data []byte) []byte {
	fset := token.NewFileSet()
	f, err := parser.ParseFile(fset, "x.go", data, parser.ParseComments)
	if err != nil {
		return data
	}
	used := map[string]bool{}
	ast.Inspect(f, func(n ast.Node) bool {
		if se, ok := n.(*ast.SelectorExpr); ok {
			if id, ok := se.X.(*ast.Ident); ok {
				used[id.Name] = true
			}
		}
		return true
	})
	changed := false
	for _, d := range f.Decls {
		gd, ok := d.(*ast.GenDecl)
		if !ok || gd.Tok != token.IMPORT {
			continue
		}
		var keep []ast.Spec
		for _, s := range gd.Specs {
			is := s.(*ast.ImportSpec)
			p, _ := strconv.Unquote(is.Path.Value)
			name := filepath.Base(p)
			if is.Name != nil {
				name = is.Name.Name
			}
			candidates := p == "time" || p == "sync/atomic" || p == "math/rand" || p == "crypto/rand"
			if candidates && !used[name] && name != "_" && name != "." {
				changed = true
				continue
			}
			keep = append(keep, s)
		}
		gd.Specs = keep
	}
	if !changed {
		return data
	}
	var buf bytes.Buffer
	if err := format.Node(&buf, fset, f); err != nil {
		return data
	}
	return buf.Bytes()
}

// atomicFuncs: the function forms of sync/atomic that vsched models.
var atomicFuncs = func() map[string]bool {
	m := map[string]bool{}
	for _, op := range []string{"Load", "Store", "Add", "Swap", "CompareAndSwap"} {
		for _, t := range []string{"Int32", "Int64", "Uint32", "Uint64"} {
			m[op+t] = true
		}
	}
	return m
}()

func addImport(f *ast.File, path string) {
	spec := &ast.ImportSpec{Path: &ast.BasicLit{Kind: token.STRING, Value: strconv.Quote(path)}}
	for _, d := range f.Decls {
		gd, ok := d.(*ast.GenDecl)
		if ok && gd.Tok == token.IMPORT {
			gd.Specs = append(gd.Specs, spec)
			if !gd.Lparen.IsValid() {
				gd.Lparen = gd.Pos()
				gd.Rparen = gd.End()
			}
			return
		}
	}
	gd := &ast.GenDecl{Tok: token.IMPORT, Specs: []ast.Spec{spec}}
	f.Decls = append([]ast.Decl{gd}, f.Decls...)
}

// block rewrites the statement lists reachable from n (not descending into nothing: function
// literals are part of the enclosing function).
func (r *rw) block(n ast.Node) {
	ast.Inspect(n, func(n ast.Node) bool {
		switch b := n.(type) {
		case *ast.BlockStmt:
			b.List = r.stmts(b.List)
		case *ast.CaseClause:
			b.Body = r.stmts(b.Body)
		case *ast.CommClause:
			b.Body = r.stmts(b.Body)
		}
		return true
	})
}

func (r *rw) site(pos token.Pos) ast.Expr {
	r.ord[r.fn]++
	return str(fmt.Sprintf("%s:%s#%d", r.file, r.fn, r.ord[r.fn]))
}

func (r *rw) stmts(list []ast.Stmt) []ast.Stmt {
	for i, s := range list {
		list[i] = r.stmt(s)
	}
	return list
}

func (r *rw) stmt(s ast.Stmt) ast.Stmt {
	switch st := s.(type) {
	case *ast.GoStmt:
		r.changed = true
		return r.goStmt(st)
	case *ast.SelectStmt:
		r.changed = true
		return r.selectStmt(st)
	case *ast.LabeledStmt:
		switch inner := st.Stmt.(type) {
		case *ast.RangeStmt:
			if r.isMapRange(inner) {
				blk := r.mapRange(inner)
				// keep the label on the loop itself
				last := len(blk.List) - 1
				st.Stmt = blk.List[last]
				blk.List[last] = st
				r.changed = true
				return blk
			}
		default:
			st.Stmt = r.stmt(st.Stmt)
		}
	case *ast.RangeStmt:
		if r.isMapRange(st) {
			r.changed = true
			return r.mapRange(st)
		}
	case *ast.SendStmt:
		if !isEmptyStruct(st.Value) {
			r.fail(st.Pos(), "send of a value other than struct{}{} is not modelled by vsched")
		}
		r.changed = true
		return &ast.ExprStmt{X: &ast.CallExpr{Fun: sel("vsched", "SendStmt"), Args: []ast.Expr{st.Chan}}}
	case *ast.ExprStmt:
		if ue, ok := st.X.(*ast.UnaryExpr); ok && ue.Op == token.ARROW {
			r.changed = true
			return &ast.ExprStmt{X: &ast.CallExpr{Fun: sel("vsched", "RecvStmt"), Args: []ast.Expr{ue.X}}}
		}
	}
	return s
}

func isEmptyStruct(e ast.Expr) bool {
	cl, ok := e.(*ast.CompositeLit)
	if !ok || len(cl.Elts) != 0 {
		return false
	}
	stt, ok := cl.Type.(*ast.StructType)
	return ok && (stt.Fields == nil || len(stt.Fields.List) == 0)
}

func (r *rw) isMapRange(s *ast.RangeStmt) bool {
	t := r.info.TypeOf(s.X)
	if t == nil {
		return false
	}
	_, ok := t.Underlying().(*types.Map)
	return ok
}

// mapRange turns `for k, v := range m { body }` into an iteration over a sorted key snapshot that
// skips keys deleted meanwhile - one of the orders Go allows, and the same in every execution.
func (r *rw) mapRange(s *ast.RangeStmt) *ast.BlockStmt {
	mt := r.info.TypeOf(s.X).Underlying().(*types.Map)
	switch kt := mt.Key().Underlying().(type) {
	case *types.Basic:
		if kt.Info()&(types.IsString|types.IsInteger) == 0 {
			r.fail(s.Pos(), "range over map with key type %s: no deterministic order available", mt.Key())
		}
	default:
		r.fail(s.Pos(), "range over map with key type %s: no deterministic order available", mt.Key())
	}
	if s.Tok != token.DEFINE && (s.Key != nil || s.Value != nil) {
		r.fail(s.Pos(), "range over map with '=' assignment is not supported by the instrumenter")
	}
	mv := ast.NewIdent("_vm")
	key := ast.NewIdent("_vk")
	if id, ok := s.Key.(*ast.Ident); ok && id.Name != "_" {
		key = ast.NewIdent(id.Name)
	}
	var pre []ast.Stmt
	valName := "_"
	if id, ok := s.Value.(*ast.Ident); ok && id.Name != "_" {
		valName = id.Name
	}
	pre = append(pre, &ast.AssignStmt{
		Lhs: []ast.Expr{ast.NewIdent(valName), ast.NewIdent("_vok")}, Tok: token.DEFINE,
		Rhs: []ast.Expr{&ast.IndexExpr{X: mv, Index: key}}})
	pre = append(pre, &ast.IfStmt{Cond: &ast.UnaryExpr{Op: token.NOT, X: ast.NewIdent("_vok")}, Body: &ast.BlockStmt{List: []ast.Stmt{&ast.BranchStmt{Tok: token.CONTINUE}}}})
	body := &ast.BlockStmt{List: append(pre, s.Body.List...)}
	loop := &ast.RangeStmt{Key: ast.NewIdent("_"), Value: key, Tok: token.DEFINE,
		X: &ast.CallExpr{Fun: sel("vsched", "SortedKeys"), Args: []ast.Expr{mv}}, Body: body}
	return &ast.BlockStmt{List: []ast.Stmt{
		&ast.AssignStmt{Lhs: []ast.Expr{mv}, Tok: token.DEFINE, Rhs: []ast.Expr{s.X}},
		loop,
	}}
}

func (r *rw) goStmt(g *ast.GoStmt) ast.Stmt {
	site := r.site(g.Pos())
	call := g.Call
	if fl, ok := call.Fun.(*ast.FuncLit); ok && len(call.Args) == 0 {
		return &ast.ExprStmt{X: &ast.CallExpr{Fun: sel("vsched", "Go"), Args: []ast.Expr{site, fl}}}
	}
	// evaluate the function value and the arguments now, as the go statement does
	lhs := []ast.Expr{ast.NewIdent("_vf")}
	rhs := []ast.Expr{call.Fun}
	var args []ast.Expr
	for i, a := range call.Args {
		if tv, ok := r.info.Types[a]; ok && (tv.Value != nil || tv.IsNil()) {
			args = append(args, a) // constants stay in place (keeps untyped constants convertible)
			continue
		}
		id := ast.NewIdent("_va" + strconv.Itoa(i))
		lhs = append(lhs, id)
		rhs = append(rhs, a)
		args = append(args, id)
	}
	inner := &ast.CallExpr{Fun: ast.NewIdent("_vf"), Args: args}
	if call.Ellipsis.IsValid() {
		inner.Ellipsis = 1
	}
	return &ast.BlockStmt{List: []ast.Stmt{
		&ast.AssignStmt{Lhs: lhs, Tok: token.DEFINE, Rhs: rhs},
		&ast.ExprStmt{X: &ast.CallExpr{Fun: sel("vsched", "Go"), Args: []ast.Expr{site,
			&ast.FuncLit{Type: &ast.FuncType{Params: &ast.FieldList{}}, Body: &ast.BlockStmt{List: []ast.Stmt{&ast.ExprStmt{X: inner}}}}}}},
	}}
}

func (r *rw) selectStmt(s *ast.SelectStmt) ast.Stmt {
	hasDefault := false
	var cases []ast.Expr
	var clauses []ast.Stmt
	idx := 0
	for _, c := range s.Body.List {
		cc := c.(*ast.CommClause)
		if cc.Comm == nil {
			hasDefault = true
			clauses = append(clauses, &ast.CaseClause{List: []ast.Expr{&ast.UnaryExpr{Op: token.SUB, X: &ast.BasicLit{Kind: token.INT, Value: "1"}}}, Body: cc.Body})
			continue
		}
		switch cm := cc.Comm.(type) {
		case *ast.ExprStmt:
			ue, ok := cm.X.(*ast.UnaryExpr)
			if !ok || ue.Op != token.ARROW {
				r.fail(cc.Pos(), "unsupported select case")
				return s
			}
			cases = append(cases, &ast.CallExpr{Fun: sel("vsched", "Recv"), Args: []ast.Expr{ue.X}})
		case *ast.SendStmt:
			if !isEmptyStruct(cm.Value) {
				r.fail(cm.Pos(), "send of a value other than struct{}{} is not modelled by vsched")
			}
			cases = append(cases, &ast.CallExpr{Fun: sel("vsched", "Send"), Args: []ast.Expr{cm.Chan}})
		default:
			r.fail(cc.Pos(), "select case that uses the received value is not modelled by vsched")
			return s
		}
		clauses = append(clauses, &ast.CaseClause{List: []ast.Expr{&ast.BasicLit{Kind: token.INT, Value: strconv.Itoa(idx)}}, Body: cc.Body})
		idx++
	}
	// a select whose clauses all terminate is a terminating statement; the switch needs a default to stay one
	clauses = append(clauses, &ast.CaseClause{List: nil, Body: []ast.Stmt{&ast.ExprStmt{X: &ast.CallExpr{
		Fun: ast.NewIdent("panic"), Args: []ast.Expr{str("vsched: unreachable select result")}}}}})
	args := []ast.Expr{ast.NewIdent(strconv.FormatBool(hasDefault))}
	args = append(args, cases...)
	return &ast.SwitchStmt{
		Tag:  &ast.CallExpr{Fun: sel("vsched", "Select"), Args: args},
		Body: &ast.BlockStmt{List: clauses},
	}
}

// lint fails loudly if a primitive survived the rewrite.
func lint(path string, data []byte) error {
	fset := token.NewFileSet()
	f, err := parser.ParseFile(fset, path, data, 0)
	if err != nil {
		return fmt.Errorf("rewritten %s does not parse: %v", path, err)
	}
	var bad []string
	ast.Inspect(f, func(n ast.Node) bool {
		switch x := n.(type) {
		case *ast.GoStmt:
			bad = append(bad, fmt.Sprintf("%s: go statement", fset.Position(x.Pos())))
		case *ast.SelectStmt:
			bad = append(bad, fmt.Sprintf("%s: select", fset.Position(x.Pos())))
		case *ast.SendStmt:
			bad = append(bad, fmt.Sprintf("%s: send", fset.Position(x.Pos())))
		case *ast.UnaryExpr:
			if x.Op == token.ARROW {
				bad = append(bad, fmt.Sprintf("%s: receive", fset.Position(x.Pos())))
			}
		case *ast.SelectorExpr:
			if id, ok := x.X.(*ast.Ident); ok && id.Name == "time" {
				switch x.Sel.Name {
				case "Sleep", "After", "Now", "Since", "AfterFunc", "NewTimer", "NewTicker", "Tick":
					bad = append(bad, fmt.Sprintf("%s: time.%s", fset.Position(x.Pos()), x.Sel.Name))
				}
			}
		}
		return true
	})
	if len(bad) > 0 {
		return fmt.Errorf("primitives escaped the instrumenter:\n  %s", strings.Join(bad, "\n  "))
	}
	return nil
}

// WriteOverlay writes the overlay JSON.
func WriteOverlay(path string, m map[string]string) error {
	keys := make([]string, 0, len(m))
	for k := range m {
		keys = append(keys, k)
	}
	sort.Strings(keys)
	b, err := json.MarshalIndent(map[string]any{"Replace": m}, "", " ")
	if err != nil {
		return err
	}
	return os.WriteFile(path, b, 0o644)
}
