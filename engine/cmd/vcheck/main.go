// vcheck builds a harness against the repository's current working tree through an overlay
// (instrumented or plain) and runs it.
//
//	vcheck run <id> [harness args...]     e.g. vcheck run c19 -tier quick
//	vcheck build <id>
//	vcheck replay <id> <file>
package main

import (
	"bytes"
	"encoding/json"
	"fmt"
	"os"
	"os/exec"
	"path/filepath"
	"strings"
	"syscall"

	"verif/engine/instr"
)

func verifDir() string {
	if d := os.Getenv("VERIF_DIR"); d != "" {
		return d
	}
	return "/verif"
}

func repoDir() string {
	if d := os.Getenv("VERIF_REPO"); d != "" {
		return d
	}
	return "/repo"
}

func die(code int, format string, a ...any) {
	fmt.Fprintf(os.Stderr, "vcheck: "+format+"\n", a...)
	os.Exit(code)
}

// mutant is a text substitution applied to a repository file inside the overlay only.
type mutant struct {
	File string `json:"file"`
	Old  string `json:"old"`
	New  string `json:"new"`
	Note string `json:"note"`
	hook bool
}

// loadHooks reads the seam rewrites that belong to the shims (shims/<pkg>/hooks.json): text substitutions like
// a mutant's, but applied in every build. They replace a call the harness cannot make happen (e.g. accepting a
// QUIC stream) by a call to a hook function defined in the shim file, so that the code AROUND the call is the
// repository's own, unduplicated. Like every hook they exist in the build overlay only.
func loadHooks() []mutant {
	var out []mutant
	dirs, _ := os.ReadDir(filepath.Join(verifDir(), "shims"))
	for _, d := range dirs {
		b, err := os.ReadFile(filepath.Join(verifDir(), "shims", d.Name(), "hooks.json"))
		if err != nil {
			continue
		}
		var ms []mutant
		if err := json.Unmarshal(b, &ms); err != nil {
			die(2, "shims/%s/hooks.json: %v", d.Name(), err)
		}
		for i := range ms {
			ms[i].hook = true
		}
		out = append(out, ms...)
	}
	return out
}

func loadMutant(name string) []mutant {
	b, err := os.ReadFile(filepath.Join(verifDir(), "mutants", name+".json"))
	if err != nil {
		die(2, "mutant %s: %v", name, err)
	}
	var ms []mutant
	if err := json.Unmarshal(b, &ms); err != nil {
		var one mutant
		if err2 := json.Unmarshal(b, &one); err2 != nil {
			die(2, "mutant %s: %v", name, err)
		}
		ms = []mutant{one}
	}
	return ms
}

func main() {
	if len(os.Args) < 3 {
		die(2, "usage: vcheck run|build <id> [args]")
	}
	cmd, id := os.Args[1], strings.ToLower(os.Args[2])
	rest := os.Args[3:]
	bin := build(id)
	companion := ""
	if b, err := os.ReadFile(filepath.Join(verifDir(), "harness", id, "COMPANION")); err == nil {
		// a second harness (other build mode) that the main one runs as a subprocess
		companion = build(strings.TrimSpace(string(b)))
	}
	switch cmd {
	case "build":
		fmt.Println(bin)
	case "run":
		env := append(os.Environ(), "VERIF_DIR="+verifDir(), "VERIF_REPO="+repoDir())
		if companion != "" {
			env = append(env, "VERIF_COMPANION_BIN="+companion)
		}
		if err := syscall.Exec(bin, append([]string{bin}, rest...), env); err != nil {
			die(2, "exec: %v", err)
		}
	default:
		die(2, "unknown command %s", cmd)
	}
}

func build(id string) string {
	vd, repo := verifDir(), repoDir()
	hdir := filepath.Join(vd, "harness", id)
	if _, err := os.Stat(hdir); err != nil {
		die(2, "no harness %s", hdir)
	}
	mode := "instr"
	if b, err := os.ReadFile(filepath.Join(hdir, "MODE")); err == nil {
		mode = strings.TrimSpace(string(b))
	}
	race := false
	if strings.HasSuffix(mode, "+race") {
		race = true
		mode = strings.TrimSuffix(mode, "+race")
	}
	if os.Getenv("VERIF_RACE") == "1" {
		race = true
	}
	// VERIF_WORK: scratch root for generated sources and binaries (default <verif>/.work); a separate
	// one lets a run against another copy of the repository (VERIF_REPO) coexist with ordinary runs
	workRoot := os.Getenv("VERIF_WORK")
	if workRoot == "" {
		workRoot = filepath.Join(vd, ".work")
	}
	work := filepath.Join(workRoot, id)
	os.RemoveAll(filepath.Join(work, "rw"))
	if err := os.MkdirAll(filepath.Join(work, "rw"), 0o755); err != nil {
		die(2, "%v", err)
	}
	overlay := map[string]string{}
	muts := loadHooks()
	if m := os.Getenv("VERIF_MUTANT"); m != "" {
		muts = append(muts, loadMutant(m)...)
	}
	kind := func(m mutant) string {
		if m.hook {
			return "hook"
		}
		return "mutant"
	}
	applied := map[int]bool{}
	mutate := func(path string, src []byte) ([]byte, error) {
		rel, _ := filepath.Rel(repo, path)
		for i, m := range muts {
			if m.File == rel {
				if !bytes.Contains(src, []byte(m.Old)) {
					return nil, fmt.Errorf("%s text not found in %s: %q", kind(m), rel, m.Old)
				}
				src = bytes.Replace(src, []byte(m.Old), []byte(m.New), 1)
				applied[i] = true
			}
		}
		return src, nil
	}
	if mode == "instr" {
		in := &instr.Instrumenter{Repo: repo, Out: filepath.Join(work, "rw"), Overlay: overlay}
		if len(muts) > 0 {
			in.Mutate = mutate
		}
		if err := in.Run(); err != nil {
			die(2, "instrumenter: %v", err)
		}
		overlay[filepath.Join(repo, "internal/sync/sync.go")] = filepath.Join(vd, "engine/shim/sync_shim.go")
		if err := overlayGolangSet(repo, filepath.Join(work, "rw"), overlay); err != nil {
			die(2, "golang-set overlay: %v", err)
		}
	}
	// mutants on files the instrumenter does not touch (or plain mode): all hunks of one file
	// accumulate in one overlay copy
	pending := map[string][]byte{}
	var order []string
	for i, m := range muts {
		if applied[i] {
			continue
		}
		p := filepath.Join(repo, m.File)
		src, ok := pending[p]
		if !ok {
			var err error
			src, err = os.ReadFile(p)
			if err != nil {
				die(2, "mutant: %v", err)
			}
			order = append(order, p)
		}
		if !bytes.Contains(src, []byte(m.Old)) {
			die(2, "%s text not found in %s: %q", kind(m), m.File, m.Old)
		}
		pending[p] = bytes.Replace(src, []byte(m.Old), []byte(m.New), 1)
	}
	for _, p := range order {
		rel, _ := filepath.Rel(repo, p)
		dst := filepath.Join(work, "rw", "mut__"+strings.ReplaceAll(rel, "/", "__"))
		os.WriteFile(dst, pending[p], 0o644)
		overlay[p] = dst
	}
	addDir := func(src, dstRel string) {
		ents, err := os.ReadDir(src)
		if err != nil {
			die(2, "%v", err)
		}
		for _, e := range ents {
			if e.IsDir() || !strings.HasSuffix(e.Name(), ".go") {
				continue
			}
			overlay[filepath.Join(repo, dstRel, e.Name())] = filepath.Join(src, e.Name())
		}
	}
	addDir(filepath.Join(vd, "engine/vsched"), "internal/vsched")
	addDir(filepath.Join(vd, "engine/vexplore"), "internal/vexplore")
	addDir(filepath.Join(vd, "engine/vrig"), "internal/vrig")
	addDir(hdir, filepath.Join("internal/vh", id))
	// in-package shims: /verif/shims/<pkg path with __>/zz_verif_*.go
	shims, _ := os.ReadDir(filepath.Join(vd, "shims"))
	for _, s := range shims {
		if !s.IsDir() {
			continue
		}
		rel := strings.ReplaceAll(s.Name(), "__", "/")
		if rel == "root" {
			rel = "."
		}
		addDir(filepath.Join(vd, "shims", s.Name()), rel)
	}
	ov := filepath.Join(work, "overlay.json")
	if err := instr.WriteOverlay(ov, overlay); err != nil {
		die(2, "%v", err)
	}
	bin := filepath.Join(work, "h")
	args := []string{"build", "-tags", "verif", "-overlay", ov, "-o", bin}
	if race {
		args = append(args, "-race")
	}
	args = append(args, "./internal/vh/"+id)
	c := exec.Command("go", args...)
	c.Dir = repo
	c.Env = append(os.Environ(), "GOFLAGS=-mod=mod", "GOPROXY=off", "GOSUMDB=off", "GOTOOLCHAIN=local", "GODEBUG=goindex=0")
	out, err := c.CombinedOutput()
	if err != nil {
		die(2, "build failed: %v\n%s", err, out)
	}
	return bin
}

// overlayGolangSet replaces the map-order iteration of golang-set's thread-unsafe set (which
// adapter.apply walks while dropping its lock around callbacks) by an iteration over a sorted
// snapshot that skips elements removed meanwhile: one of the orders Go allows, the same in every
// execution. The module cache itself is not touched.
func overlayGolangSet(repo, out string, overlay map[string]string) error {
	c := exec.Command("go", "list", "-m", "-f", "{{.Dir}}", "github.com/deckarep/golang-set/v2")
	c.Dir = repo
	c.Env = append(os.Environ(), "GOFLAGS=-mod=mod", "GOPROXY=off", "GOSUMDB=off", "GOTOOLCHAIN=local")
	b, err := c.Output()
	if err != nil {
		return err
	}
	src := filepath.Join(strings.TrimSpace(string(b)), "threadunsafe.go")
	data, err := os.ReadFile(src)
	if err != nil {
		return err
	}
	s := string(data)
	oldEach := "func (s threadUnsafeSet[T]) Each(cb func(T) bool) {\n\tfor elem := range s {\n\t\tif cb(elem) {\n\t\t\tbreak\n\t\t}\n\t}\n}"
	newEach := "func (s threadUnsafeSet[T]) Each(cb func(T) bool) {\n\tfor _, elem := range s.verifSorted() {\n\t\tif _, ok := s[elem]; !ok {\n\t\t\tcontinue\n\t\t}\n\t\tif cb(elem) {\n\t\t\tbreak\n\t\t}\n\t}\n}\n\n" +
		"func (s threadUnsafeSet[T]) verifSorted() []T {\n\tkeys := make([]T, 0, len(s))\n\tfor elem := range s {\n\t\tkeys = append(keys, elem)\n\t}\n\tsort.Slice(keys, func(i, j int) bool { return fmt.Sprint(keys[i]) < fmt.Sprint(keys[j]) })\n\treturn keys\n}"
	if !strings.Contains(s, oldEach) {
		return fmt.Errorf("threadUnsafeSet.Each has an unexpected shape in %s", src)
	}
	s = strings.Replace(s, oldEach, newEach, 1)
	oldTo := "func (s threadUnsafeSet[T]) ToSlice() []T {\n\tkeys := make([]T, 0, s.Cardinality())\n\tfor elem := range s {\n\t\tkeys = append(keys, elem)\n\t}\n\n\treturn keys\n}"
	if strings.Contains(s, oldTo) {
		s = strings.Replace(s, oldTo, "func (s threadUnsafeSet[T]) ToSlice() []T {\n\treturn s.verifSorted()\n}", 1)
	}
	s = strings.Replace(s, "import (\n", "import (\n\t\"sort\"\n", 1)
	dst := filepath.Join(out, "golang_set__threadunsafe.go")
	if err := os.WriteFile(dst, []byte(s), 0o644); err != nil {
		return err
	}
	overlay[src] = dst
	return nil
}
