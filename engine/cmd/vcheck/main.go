// vcheck builds a harness against the repository's current working tree through an overlay
// (instrumented or plain) and runs it.
//
//	vcheck run <id> [harness args...]     e.g. vcheck run c19 -tier quick
//	vcheck build <id>
//	vcheck replay <id> <file>
package main

import (
	"bytes"
	"encoding/json"
	"fmt"
	"os"
	"os/exec"
	"path/filepath"
	"strings"
	"syscall"

	"verif/engine/instr"
)

func verifDir() string {
	if d := os.Getenv("VERIF_DIR"); d != "" {
		return d
	}
	return "/verif"
}

func repoDir() string {
	if d := os.Getenv("VERIF_REPO"); d != "" {
		return d
	}
	return "/repo"
}

func die(code int, format string, a ...any) {
	fmt.Fprintf(os.Stderr, "vcheck: "+format+"\n", a...)
	os.Exit(code)
}

// mutant is a text substitution applied to a repository file inside the overlay only.
type mutant struct {
	File string `json:"file"`
	Old  string `json:"old"`
	New  string `json:"new"`
	Note string `json:"note"`
}

func loadMutant(name string) []mutant {
	b, err := os.ReadFile(filepath.Join(verifDir(), "mutants", name+".json"))
	if err != nil {
		die(2, "mutant %s: %v", name, err)
	}
	var ms []mutant
	if err := json.Unmarshal(b, &ms); err != nil {
		var one mutant
		if err2 := json.Unmarshal(b, &one); err2 != nil {
			die(2, "mutant %s: %v", name, err)
		}
		ms = []mutant{one}
	}
	return ms
}

func main() {
	if len(os.Args) < 3 {
		die(2, "usage: vcheck run|build <id> [args]")
	}
	cmd, id := os.Args[1], strings.ToLower(os.Args[2])
	rest := os.Args[3:]
	bin := build(id)
	switch cmd {
	case "build":
		fmt.Println(bin)
	case "run":
		env := append(os.Environ(), "VERIF_DIR="+verifDir(), "VERIF_REPO="+repoDir())
		if err := syscall.Exec(bin, append([]string{bin}, rest...), env); err != nil {
			die(2, "exec: %v", err)
		}
	default:
		die(2, "unknown command %s", cmd)
	}
}

func build(id string) string {
	vd, repo := verifDir(), repoDir()
	hdir := filepath.Join(vd, "harness", id)
	if _, err := os.Stat(hdir); err != nil {
		die(2, "no harness %s", hdir)
	}
	mode := "instr"
	if b, err := os.ReadFile(filepath.Join(hdir, "MODE")); err == nil {
		mode = strings.TrimSpace(string(b))
	}
	race := false
	if strings.HasSuffix(mode, "+race") {
		race = true
		mode = strings.TrimSuffix(mode, "+race")
	}
	if os.Getenv("VERIF_RACE") == "1" {
		race = true
	}
	work := filepath.Join(vd, ".work", id)
	os.RemoveAll(filepath.Join(work, "rw"))
	if err := os.MkdirAll(filepath.Join(work, "rw"), 0o755); err != nil {
		die(2, "%v", err)
	}
	overlay := map[string]string{}
	var muts []mutant
	if m := os.Getenv("VERIF_MUTANT"); m != "" {
		muts = loadMutant(m)
	}
	applied := map[int]bool{}
	mutate := func(path string, src []byte) ([]byte, error) {
		rel, _ := filepath.Rel(repo, path)
		for i, m := range muts {
			if m.File == rel {
				if !bytes.Contains(src, []byte(m.Old)) {
					return nil, fmt.Errorf("mutant text not found in %s: %q", rel, m.Old)
				}
				src = bytes.Replace(src, []byte(m.Old), []byte(m.New), 1)
				applied[i] = true
			}
		}
		return src, nil
	}
	if mode == "instr" {
		in := &instr.Instrumenter{Repo: repo, Out: filepath.Join(work, "rw"), Overlay: overlay}
		if len(muts) > 0 {
			in.Mutate = mutate
		}
		if err := in.Run(); err != nil {
			die(2, "instrumenter: %v", err)
		}
		overlay[filepath.Join(repo, "internal/sync/sync.go")] = filepath.Join(vd, "engine/shim/sync_shim.go")
	}
	// mutants on files the instrumenter does not touch (or plain mode)
	for i, m := range muts {
		if applied[i] {
			continue
		}
		p := filepath.Join(repo, m.File)
		src, err := os.ReadFile(p)
		if err != nil {
			die(2, "mutant: %v", err)
		}
		if !bytes.Contains(src, []byte(m.Old)) {
			die(2, "mutant text not found in %s: %q", m.File, m.Old)
		}
		src = bytes.Replace(src, []byte(m.Old), []byte(m.New), 1)
		dst := filepath.Join(work, "rw", "mut__"+strings.ReplaceAll(m.File, "/", "__"))
		os.WriteFile(dst, src, 0o644)
		overlay[p] = dst
	}
	addDir := func(src, dstRel string) {
		ents, err := os.ReadDir(src)
		if err != nil {
			die(2, "%v", err)
		}
		for _, e := range ents {
			if e.IsDir() || !strings.HasSuffix(e.Name(), ".go") {
				continue
			}
			overlay[filepath.Join(repo, dstRel, e.Name())] = filepath.Join(src, e.Name())
		}
	}
	addDir(filepath.Join(vd, "engine/vsched"), "internal/vsched")
	addDir(filepath.Join(vd, "engine/vexplore"), "internal/vexplore")
	addDir(filepath.Join(vd, "engine/vrig"), "internal/vrig")
	addDir(hdir, filepath.Join("internal/vh", id))
	// in-package shims: /verif/shims/<pkg path with __>/zz_verif_*.go
	shims, _ := os.ReadDir(filepath.Join(vd, "shims"))
	for _, s := range shims {
		if !s.IsDir() {
			continue
		}
		rel := strings.ReplaceAll(s.Name(), "__", "/")
		if rel == "root" {
			rel = "."
		}
		addDir(filepath.Join(vd, "shims", s.Name()), rel)
	}
	ov := filepath.Join(work, "overlay.json")
	if err := instr.WriteOverlay(ov, overlay); err != nil {
		die(2, "%v", err)
	}
	bin := filepath.Join(work, "h")
	args := []string{"build", "-tags", "verif", "-overlay", ov, "-o", bin}
	if race {
		args = append(args, "-race")
	}
	args = append(args, "./internal/vh/"+id)
	c := exec.Command("go", args...)
	c.Dir = repo
	c.Env = append(os.Environ(), "GOFLAGS=-mod=mod", "GOPROXY=off", "GOSUMDB=off", "GOTOOLCHAIN=local", "GODEBUG=goindex=0")
	out, err := c.CombinedOutput()
	if err != nil {
		die(2, "build failed: %v\n%s", err, out)
	}
	return bin
}
